// Package fuzz holds the native (coverage-guided) fuzz target of property C13. It runs only in the
// thorough tier: Go's fuzzer cannot be seeded, and the saved crasher is the reproducible unit (the
// driver converts it into a C13 replay file that runs against the child-process host).
package fuzz

import (
	"sync"
	"testing"
	"time"

	"verifharness/kit"
)

var (
	once sync.Once
	emu  *kit.Emu
)

func host() *kit.Emu {
	once.Do(func() { emu = kit.StartEmu("") })
	return emu
}

// FuzzWire: arbitrary bytes on a fresh connection must not kill the process (a panic on an emulator
// goroutine kills this fuzz worker, which the fuzzer records as a crasher) and must not stop other
// connections from being served.
func FuzzWire(f *testing.F) {
	seeds := []string{
		"*1\r\n$4\r\nPING\r\n", "*3\r\n$3\r\nSET\r\n$1\r\nk\r\n$1\r\nv\r\n", "*2\r\n$3\r\nGET\r\n$1\r\nk\r\n", "\r\n", "*\r\n", "$\r\n",
		"*9223372036854775807\r\n", "$9223372036854775807\r\n", "*1\r\n$-2\r\n", "~1\r\n*1\r\n$1\r\na\r\n", "%1\r\n*1\r\n:1\r\n$1\r\nv\r\n",
		"*4\r\n$6\r\nSETBIT\r\n$1\r\nk\r\n$19\r\n9223372036854775807\r\n$1\r\n1\r\n", "*3\r\n$4\r\nLPOP\r\n$1\r\nl\r\n$19\r\n9223372036854775807\r\n",
		"*5\r\n$8\r\nBITFIELD\r\n$1\r\nk\r\n$3\r\nGET\r\n$2\r\nu8\r\n$2\r\n-9\r\n", "*3\r\n$10\r\nHRANDFIELD\r\n$1\r\nh\r\n$20\r\n-9223372036854775808\r\n",
		"*4\r\n$4\r\nSCAN\r\n$1\r\n0\r\n$5\r\nCOUNT\r\n$19\r\n9223372036854775807\r\n", "*4\r\n$7\r\nLINSERT\r\n$1\r\nl\r\n$6\r\nBEFORE\r\n$1\r\nx\r\n",
		"*2\r\n$5\r\nHELLO\r\n$1\r\n3\r\n*2\r\n$7\r\nHGETALL\r\n$1\r\nh\r\n", "*1\r\n$5\r\nMULTI\r\n*2\r\n$6\r\nCLIENT\r\n$4\r\nLIST\r\n*1\r\n$4\r\nEXEC\r\n",
		"$?\r\n;3\r\nabc\r\n;0\r\n", "*?\r\n:1\r\n.\r\n", ">2\r\n+x\r\n:1\r\n", "|1\r\n+a\r\n+b\r\n*1\r\n$4\r\nPING\r\n", "(12345678901234567890123\r\n", ",nan\r\n", "=3\r\nabc\r\n",
	}
	for _, s := range seeds {
		f.Add([]byte(s))
	}
	f.Fuzz(func(t *testing.T, data []byte) {
		e := host()
		c, err := kit.Dial(e.Addr)
		if err != nil {
			t.Fatalf("dial: %v", err)
		}
		c.Proto = 0
		c.Write(data)
		c.Drain(2 * time.Millisecond)
		c.Close()
		b, err := kit.Dial(e.Addr)
		if err != nil {
			t.Fatalf("a new connection is refused after %q: %v", data, err)
		}
		defer b.Close()
		v, err := b.DoT(5*time.Second, "PING")
		if err != nil || !kit.Equal(v, kit.Simple("PONG")) {
			t.Fatalf("other connections are not served after %q: PING -> %v %v", data, v, err)
		}
		// blocking commands sent by the fuzzer would pile up registered waiters; start clean
		b.Do("FLUSHALL")
	})
}
