package kit

import (
	"fmt"
	"net"
	"os"
	"path/filepath"
	"sync"
	"syscall"
	"time"

	"github.com/jimsnab/go-lane"
	redisemu "github.com/jimsnab/go-redisemu"
)

// Port allocation. startServer() of the emulator calls os.Exit(1) when its port is taken, so the
// harness must never hand it a port that can be busy: ports come from a range *below* the kernel's
// ephemeral range (so no outgoing connection can sit on them), partitioned into slots; a process
// claims one slot for its lifetime with flock and probes every port before use.
const (
	portBase  = 10240
	slotSize  = 320
	slotCount = 68 // 10240 .. 32000
)

var (
	portMu   sync.Mutex
	slotFile *os.File
	slotBase int
	nextPort int
)

func claimSlot() {
	dir := filepath.Join(os.TempDir(), "verif-portslots")
	os.MkdirAll(dir, 0o777)
	start := os.Getpid() % slotCount
	for i := 0; i < slotCount; i++ {
		s := (start + i) % slotCount
		f, err := os.OpenFile(filepath.Join(dir, fmt.Sprintf("slot-%d", s)), os.O_CREATE|os.O_RDWR, 0o666)
		if err != nil {
			continue
		}
		if err := syscall.Flock(int(f.Fd()), syscall.LOCK_EX|syscall.LOCK_NB); err != nil {
			f.Close()
			continue
		}
		slotFile = f
		slotBase = portBase + s*slotSize
		return
	}
	panic("kit: no free port slot")
}

// FreePort returns a port in this process's slot that could be bound a moment ago.
func FreePort() int {
	portMu.Lock()
	defer portMu.Unlock()
	if slotFile == nil {
		claimSlot()
	}
	for i := 0; i < 2*slotSize; i++ {
		p := slotBase + nextPort%slotSize
		nextPort++
		if PortFree(p) {
			return p
		}
	}
	panic("kit: no bindable port in slot")
}

// PortFree reports whether 127.0.0.1:p and 0.0.0.0:p can be bound right now.
func PortFree(p int) bool {
	l, err := net.Listen("tcp", fmt.Sprintf("127.0.0.1:%d", p))
	if err != nil {
		return false
	}
	l.Close()
	return true
}

// Emu is a running emulator instance.
type Emu struct {
	E       *redisemu.RedisEmu
	Port    int
	Addr    string
	Persist string
	conns   []*Conn
	mu      sync.Mutex
}

// StartEmu starts an emulator on a fresh port (persist "" = none).
func StartEmu(persist string) *Emu {
	return StartEmuOn(FreePort(), persist)
}

// StartEmuOn starts an emulator on a given port; the port must have been probed by the caller.
func StartEmuOn(port int, persist string) *Emu {
	if !PortFree(port) {
		panic(fmt.Sprintf("kit: port %d is busy; refusing to let the emulator call os.Exit", port))
	}
	e, err := redisemu.NewEmulator(lane.NewNullLane(nil), port, "127.0.0.1", persist, nil)
	if err != nil {
		panic(err)
	}
	e.Start()
	return &Emu{E: e, Port: port, Addr: fmt.Sprintf("127.0.0.1:%d", port), Persist: persist}
}

// Dial opens a tracked connection (closed by Stop).
func (e *Emu) Dial() *Conn {
	c, err := Dial(e.Addr)
	if err != nil {
		panic(fmt.Sprintf("kit: dial %s: %v", e.Addr, err))
	}
	e.mu.Lock()
	e.conns = append(e.conns, c)
	e.mu.Unlock()
	return c
}

// CloseConns closes every tracked client socket.
func (e *Emu) CloseConns() {
	e.mu.Lock()
	for _, c := range e.conns {
		c.Close()
	}
	e.conns = nil
	e.mu.Unlock()
}

// Stop closes client sockets, then the emulator.
func (e *Emu) Stop() {
	e.CloseConns()
	done := make(chan struct{})
	go func() {
		e.E.Close()
		close(done)
	}()
	select {
	case <-done:
	case <-time.After(StopBound):
		// a termination that never returns would wedge the whole check until its time budget is gone; the
		// process ends here instead, and the case in the journal becomes the replay
		panic(fmt.Sprintf("kit: the emulator on %s did not terminate within %v after its clients had closed their connections", e.Addr, StopBound))
	}
}

// StopBound: how long Close of an emulator whose clients are gone may take (it normally takes milliseconds).
var StopBound = 60 * time.Second
