package kit

import (
	"encoding/base64"
	"encoding/json"
	"fmt"
	"hash/fnv"
	"os"
	"path/filepath"
	"runtime"
	"sort"
	"strings"
	"sync"
	"testing"

	"pgregory.net/rapid"
)

// S is a byte string that survives JSON (replay files, journals, samples) unchanged.
type S string

func (s S) MarshalJSON() ([]byte, error) {
	plain := !strings.HasPrefix(string(s), "b64:")
	for i := 0; i < len(s) && plain; i++ {
		if s[i] < 0x20 || s[i] > 0x7e {
			plain = false
		}
	}
	if plain {
		return json.Marshal(string(s))
	}
	return json.Marshal("b64:" + base64.StdEncoding.EncodeToString([]byte(s)))
}

func (s *S) UnmarshalJSON(b []byte) error {
	var str string
	if err := json.Unmarshal(b, &str); err != nil {
		return err
	}
	if strings.HasPrefix(str, "b64:") {
		d, err := base64.StdEncoding.DecodeString(str[4:])
		if err != nil {
			return err
		}
		*s = S(d)
		return nil
	}
	*s = S(str)
	return nil
}

// Argv is one command.
type Argv []S

func A(args ...string) Argv {
	a := make(Argv, len(args))
	for i, s := range args {
		a[i] = S(s)
	}
	return a
}

func (a Argv) Strs() []string {
	out := make([]string, len(a))
	for i, s := range a {
		out[i] = string(s)
	}
	return out
}

func (a Argv) String() string {
	parts := make([]string, len(a))
	for i, s := range a {
		str := string(s)
		if len(str) > 40 {
			str = fmt.Sprintf("%s...(%dB)", str[:24], len(str))
		}
		plain := str != ""
		for j := 0; j < len(str) && plain; j++ {
			if str[j] <= 0x20 || str[j] > 0x7e || str[j] == '"' {
				plain = false
			}
		}
		if plain {
			parts[i] = str
		} else {
			parts[i] = fmt.Sprintf("%q", str)
		}
	}
	if len(parts) > 14 {
		parts = append(parts[:10:10], fmt.Sprintf("...(%d args in total)", len(a)))
	}
	return strings.Join(parts, " ")
}

// ---- statistics ---------------------------------------------------------------------------------

// Stats accumulates the evidence counters of one property run.
type Stats struct {
	mu          sync.Mutex
	Evaluations int            `json:"evaluations"`
	NTHashes    []uint64       `json:"nt_hashes"`
	Classes     map[string]int `json:"classes"`
	Excluded    map[string]int `json:"excluded_known"`
	Samples     []any          `json:"samples"`
	Extra       map[string]any `json:"extra,omitempty"`
	nt          map[uint64]struct{}
	ntCount     int
	lastSample  any
}

func NewStats() *Stats {
	return &Stats{Classes: map[string]int{}, Excluded: map[string]int{}, nt: map[uint64]struct{}{}, Extra: map[string]any{}}
}

func (s *Stats) Eval() { s.mu.Lock(); s.Evaluations++; s.mu.Unlock() }

func (s *Stats) Class(name string) { s.mu.Lock(); s.Classes[name]++; s.mu.Unlock() }
func (s *Stats) ClassN(name string, n int) {
	s.mu.Lock()
	s.Classes[name] += n
	s.mu.Unlock()
}

func (s *Stats) Exclude(id string) { s.mu.Lock(); s.Excluded[id]++; s.mu.Unlock() }

// NonTrivial records a non-trivial case identified by its canonical text; sample is kept for the
// first, the 40th and the last distinct non-trivial case.
func (s *Stats) NonTrivial(canonical string, sample any) {
	h := fnv.New64a()
	h.Write([]byte(canonical))
	k := h.Sum64()
	s.mu.Lock()
	defer s.mu.Unlock()
	if _, dup := s.nt[k]; dup {
		return
	}
	s.nt[k] = struct{}{}
	s.ntCount++
	if s.ntCount == 1 || s.ntCount == 40 {
		s.Samples = append(s.Samples, sample)
	}
	s.lastSample = sample
}

func (s *Stats) write(path string) {
	s.mu.Lock()
	defer s.mu.Unlock()
	s.NTHashes = s.NTHashes[:0]
	for k := range s.nt {
		s.NTHashes = append(s.NTHashes, k)
	}
	sort.Slice(s.NTHashes, func(i, j int) bool { return s.NTHashes[i] < s.NTHashes[j] })
	if s.lastSample != nil && s.ntCount != 1 && s.ntCount != 40 {
		s.Samples = append(s.Samples, s.lastSample)
	}
	b, _ := json.Marshal(s)
	os.WriteFile(path, b, 0o644)
}

// ---- known findings -------------------------------------------------------------------------------

type Finding struct {
	ID       string `json:"id"`
	Property string `json:"property"`
	Status   string `json:"status"` // "open" or "fixed"
	What     string `json:"what"`
	Trigger  string `json:"trigger"`
	Replay   string `json:"replay,omitempty"`
}

type kfFile struct {
	Findings []Finding `json:"findings"`
	Fixed    []string  `json:"fixed"`
}

var (
	kfOnce sync.Once
	kfOpen map[string]bool
)

func verifRoot() string {
	if r := os.Getenv("VERIF_ROOT"); r != "" {
		return r
	}
	_, file, _, _ := runtime.Caller(0)
	return filepath.Dir(filepath.Dir(filepath.Dir(file)))
}

// KF reports whether the known finding with this id is listed as open. The exclusion predicates in
// the generators are only active while their finding is listed; remove the entry and the search
// reports the defect as a VIOLATION again.
func KF(id string) bool {
	if os.Getenv("VERIF_NO_KF") != "" {
		return false // replay of a known finding: exclusions off
	}
	kfOnce.Do(func() {
		kfOpen = map[string]bool{}
		b, err := os.ReadFile(filepath.Join(verifRoot(), "known_findings.json"))
		if err != nil {
			return
		}
		var f kfFile
		if json.Unmarshal(b, &f) != nil {
			return
		}
		for _, x := range f.Findings {
			if x.Status == "open" {
				kfOpen[x.ID] = true
			}
		}
	})
	return kfOpen[id]
}

// ---- property runner --------------------------------------------------------------------------------

// Prop is one executable property: Gen draws a case (pure data), Run executes it against the real
// code and returns a non-nil error when the oracle is violated.
type Prop[C any] struct {
	ID  string
	Gen func(t *rapid.T) C
	Run func(c C, st *Stats) error
}

func runDir() string {
	d := os.Getenv("VERIF_RUN")
	if d == "" {
		d = filepath.Join(os.TempDir(), "verif-run-default")
	}
	os.MkdirAll(d, 0o755)
	return d
}

func shardSuffix() string {
	if s := os.Getenv("VERIF_SHARD"); s != "" {
		return "." + s
	}
	return ""
}

type failRec[C any] struct {
	Property string `json:"property"`
	Error    string `json:"error"`
	Case     C      `json:"case"`
}

// Check runs the property under rapid (or replays one case when VERIF_REPLAY is set).
func Check[C any](t *testing.T, p Prop[C]) {
	dir := runDir()
	st := NewStats()
	if rp := os.Getenv("VERIF_REPLAY"); rp != "" {
		b, err := os.ReadFile(rp)
		if err != nil {
			t.Fatalf("replay: %v", err)
		}
		var rec failRec[C]
		if err := json.Unmarshal(b, &rec); err != nil {
			t.Fatalf("replay decode: %v", err)
		}
		if rec.Property != "" && rec.Property != p.ID {
			t.Skipf("replay file is for %s", rec.Property)
		}
		if err := p.Run(rec.Case, st); err != nil {
			fmt.Printf("REPLAY-FAIL property=%s %s\n", p.ID, oneLine(err.Error()))
			t.Fail()
		} else {
			fmt.Printf("REPLAY-PASS property=%s\n", p.ID)
		}
		return
	}

	journal := filepath.Join(dir, p.ID+shardSuffix()+".journal.json")
	failPath := filepath.Join(dir, p.ID+shardSuffix()+".fail.json")
	os.Remove(failPath)
	var last *failRec[C]
	t.Cleanup(func() {
		st.write(filepath.Join(dir, p.ID+shardSuffix()+".stats.json"))
		if last != nil {
			b, _ := json.MarshalIndent(last, "", " ")
			os.WriteFile(failPath, b, 0o644)
		}
		os.Remove(journal)
	})
	rapid.Check(t, func(rt *rapid.T) {
		c := p.Gen(rt)
		jb, _ := json.Marshal(failRec[C]{Property: p.ID, Error: "process died while running this case", Case: c})
		os.WriteFile(journal+".tmp", jb, 0o644)
		os.Rename(journal+".tmp", journal)
		st.Eval()
		if err := p.Run(c, st); err != nil {
			last = &failRec[C]{Property: p.ID, Error: err.Error(), Case: c}
			// recorded at once: if a later case (or shrinking) wedges the process, the failure found so far is not lost
			if b, merr := json.MarshalIndent(last, "", " "); merr == nil {
				os.WriteFile(failPath+".tmp", b, 0o644)
				os.Rename(failPath+".tmp", failPath)
			}
			rt.Fatalf("%s violated: %v", p.ID, err)
		}
	})
}

func oneLine(s string) string {
	s = strings.ReplaceAll(s, "\n", " | ")
	if len(s) > 4000 {
		s = s[:4000] + "..."
	}
	return s
}
