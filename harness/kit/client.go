package kit

import (
	"bytes"
	"errors"
	"fmt"
	"net"
	"strconv"
	"sync/atomic"
	"time"
)

// ReplyTimeout bounds the wait for the reply of a non-blocking command. It is a liveness bound
// ("within bounded time"), three to four orders of magnitude above the normal latency (~50 µs).
var ReplyTimeout = 20 * time.Second

// Conn is a raw RESP connection with a strict reply parser.
type Conn struct {
	C       net.Conn
	Proto   int // 2 or 3: which reply types the strict parser accepts
	buf     []byte
	Raw     bytes.Buffer // all reply bytes consumed so far (when KeepRaw)
	KeepRaw bool
	stalled bool
}

func Dial(addr string) (*Conn, error) {
	c, err := net.DialTimeout("tcp", addr, 5*time.Second)
	if err != nil {
		return nil, err
	}
	if tc, ok := c.(*net.TCPConn); ok {
		tc.SetNoDelay(true)
	}
	return &Conn{C: c, Proto: 2}, nil
}

func (c *Conn) Close() { c.C.Close() }

// EncodeCmd encodes argv as an array of bulk strings.
func EncodeCmd(argv ...string) []byte {
	var b bytes.Buffer
	b.WriteString("*" + strconv.Itoa(len(argv)) + "\r\n")
	for _, a := range argv {
		b.WriteString("$" + strconv.Itoa(len(a)) + "\r\n")
		b.WriteString(a)
		b.WriteString("\r\n")
	}
	return b.Bytes()
}

func (c *Conn) Write(raw []byte) error {
	c.C.SetWriteDeadline(time.Now().Add(ReplyTimeout))
	_, err := c.C.Write(raw)
	return err
}

// ErrTimeout: no complete reply within the bound.
var ErrTimeout = errors.New("timeout waiting for reply")

// ProtoError: reply bytes violate RESP framing (strict parser).
type ProtoError struct {
	Msg  string
	Data []byte
}

func (e *ProtoError) Error() string {
	d := e.Data
	if len(d) > 200 {
		d = d[:200]
	}
	return fmt.Sprintf("malformed reply: %s; bytes=%q", e.Msg, d)
}

// Read reads exactly one reply, waiting at most d.
func (c *Conn) Read(d time.Duration) (Value, error) {
	deadline := time.Now().Add(d)
	tmp := make([]byte, 64*1024)
	for {
		if len(c.buf) > 0 {
			v, n, err := Parse(c.buf, c.Proto)
			if err == nil {
				if c.KeepRaw {
					c.Raw.Write(c.buf[:n])
				}
				c.buf = c.buf[n:]
				return v, nil
			}
			if err != ErrIncomplete {
				return Value{}, &ProtoError{Msg: err.Error(), Data: append([]byte(nil), c.buf...)}
			}
		}
		c.C.SetReadDeadline(deadline)
		n, err := c.C.Read(tmp)
		if n > 0 {
			c.buf = append(c.buf, tmp[:n]...)
			continue
		}
		if err != nil {
			var ne net.Error
			if errors.As(err, &ne) && ne.Timeout() {
				return Value{}, ErrTimeout
			}
			return Value{}, err
		}
	}
}

// Pending returns unparsed bytes received so far (after trying to read for d).
func (c *Conn) Drain(d time.Duration) []byte {
	tmp := make([]byte, 64*1024)
	c.C.SetReadDeadline(time.Now().Add(d))
	for {
		n, err := c.C.Read(tmp)
		if n > 0 {
			c.buf = append(c.buf, tmp[:n]...)
		}
		if err != nil {
			break
		}
	}
	return c.buf
}

// DrainClosed reads until the peer closes the connection (EOF or reset) or d has passed; closed tells which.
func (c *Conn) DrainClosed(d time.Duration) (data []byte, closed bool) {
	tmp := make([]byte, 64*1024)
	c.C.SetReadDeadline(time.Now().Add(d))
	for {
		n, err := c.C.Read(tmp)
		if n > 0 {
			c.buf = append(c.buf, tmp[:n]...)
		}
		if err != nil {
			if ne, ok := err.(net.Error); ok && ne.Timeout() {
				return c.buf, false
			}
			return c.buf, true
		}
	}
}

// Do sends one command and reads its reply.
func (c *Conn) Do(argv ...string) (Value, error) {
	if c.stalled {
		return Value{}, ErrTimeout
	}
	if err := c.Write(EncodeCmd(argv...)); err != nil {
		return Value{}, err
	}
	v, err := c.Read(ReplyTimeout)
	if err == ErrTimeout {
		// a command that got no reply within ReplyTimeout: counted, and the connection is given up
		// (later calls fail at once), so that a workload against a wedged server ends instead of
		// waiting ReplyTimeout for every remaining command
		c.stalled = true
		Stalls.Add(1)
		lastStall.Store(fmt.Sprintf("%q", argv))
	}
	return v, err
}

// Stalls counts Do calls that got no reply within ReplyTimeout (see StallError).
var Stalls atomic.Int64
var lastStall atomic.Value

// StallError reports commands that went unanswered since the counter stood at before.
func StallError(before int64) error {
	if n := Stalls.Load() - before; n > 0 {
		return fmt.Errorf("%d command(s) got no reply within %v (the last one: %v): the server stopped answering", n, ReplyTimeout, lastStall.Load())
	}
	return nil
}

// MustDo is Do that converts transport problems into an error value description.
func (c *Conn) DoT(d time.Duration, argv ...string) (Value, error) {
	if err := c.Write(EncodeCmd(argv...)); err != nil {
		return Value{}, err
	}
	return c.Read(d)
}

// Hello3 switches the connection (and the strict parser) to RESP3.
func (c *Conn) Hello3() error {
	if err := c.Write(EncodeCmd("HELLO", "3")); err != nil {
		return err
	}
	c.Proto = 3
	v, err := c.Read(ReplyTimeout)
	if err != nil {
		return err
	}
	if v.IsErr() {
		c.Proto = 2
		return fmt.Errorf("HELLO 3 refused: %s", v.S)
	}
	return nil
}
