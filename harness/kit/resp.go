// Package kit: wire client, strict RESP parser, emulator launcher, journal, stats.
package kit

import (
	"bytes"
	"errors"
	"fmt"
	"sort"
	"strconv"
	"strings"
)

// Kind of a RESP value.
type Kind int

const (
	KNil      Kind = iota // RESP2 "$-1" / "*-1"  or RESP3 "_"
	KInt                  // ":"
	KBulk                 // "$"
	KSimple               // "+"
	KErr                  // "-"
	KArr                  // "*"
	KMap                  // "%"  (A holds k0,v0,k1,v1,...)
	KSet                  // "~"
	KDouble               // ","
	KBool                 // "#"
	KBig                  // "("
	KVerbatim             // "="
	KPush                 // ">"
	KBlobErr              // "!"
	KAttr                 // "|"
)

func (k Kind) String() string {
	return [...]string{"nil", "int", "bulk", "simple", "err", "arr", "map", "set", "double", "bool", "big", "verbatim", "push", "bloberr", "attr"}[k]
}

// Value is a parsed RESP value.
type Value struct {
	K Kind
	I int64   // KInt, KBool (0/1)
	S string  // KBulk, KSimple, KErr, KDouble(text), KBig(text), KVerbatim (text without "fmt:"), KBlobErr
	A []Value // KArr, KMap (flattened pairs), KSet, KPush, KAttr
	// NilForm records how a nil was written: "$-1", "*-1" or "_"
	NilForm string
}

var ErrIncomplete = errors.New("incomplete")

// Parse parses exactly one RESP value from buf with strict rules. proto is 2 or 3:
// under proto 2 any RESP3-only type byte is an error. Returns the number of bytes consumed.
// ErrIncomplete is returned when buf holds a proper prefix of a value.
func Parse(buf []byte, proto int) (v Value, n int, err error) {
	p := &parser{b: buf, proto: proto}
	v, err = p.value(0)
	return v, p.pos, err
}

type parser struct {
	b     []byte
	pos   int
	proto int
}

const maxDepth = 64

// line returns the bytes up to CRLF (exclusive) and advances past CRLF.
// A bare CR or LF inside the line is a framing violation.
func (p *parser) line() ([]byte, error) {
	for i := p.pos; i < len(p.b); i++ {
		c := p.b[i]
		if c == '\n' {
			return nil, fmt.Errorf("bare LF inside line at offset %d", i)
		}
		if c == '\r' {
			if i+1 >= len(p.b) {
				return nil, ErrIncomplete
			}
			if p.b[i+1] != '\n' {
				return nil, fmt.Errorf("CR not followed by LF at offset %d", i)
			}
			l := p.b[p.pos:i]
			p.pos = i + 2
			return l, nil
		}
	}
	return nil, ErrIncomplete
}

func strictInt(b []byte) (int64, error) {
	s := string(b)
	if s == "" {
		return 0, errors.New("empty integer")
	}
	n, err := strconv.ParseInt(s, 10, 64)
	if err != nil {
		return 0, fmt.Errorf("bad integer %q", s)
	}
	// canonical form only: no "+", no leading zeros, no "-0"
	if strconv.FormatInt(n, 10) != s {
		return 0, fmt.Errorf("non-canonical integer %q", s)
	}
	return n, nil
}

func (p *parser) blob(n int64) (string, error) {
	if n < 0 {
		return "", fmt.Errorf("negative length %d", n)
	}
	if int64(len(p.b)-p.pos) < n+2 {
		// check what is there is still consistent
		return "", ErrIncomplete
	}
	s := string(p.b[p.pos : p.pos+int(n)])
	if p.b[p.pos+int(n)] != '\r' || p.b[p.pos+int(n)+1] != '\n' {
		return "", fmt.Errorf("blob of declared length %d not terminated by CRLF", n)
	}
	p.pos += int(n) + 2
	return s, nil
}

func (p *parser) value(depth int) (Value, error) {
	if depth > maxDepth {
		return Value{}, errors.New("nesting too deep")
	}
	if p.pos >= len(p.b) {
		return Value{}, ErrIncomplete
	}
	t := p.b[p.pos]
	start := p.pos
	p.pos++
	if p.proto == 2 {
		switch t {
		case '+', '-', ':', '$', '*':
		default:
			p.pos = start
			return Value{}, fmt.Errorf("type byte %q is not a RESP2 type (offset %d)", t, start)
		}
	}
	switch t {
	case '+', '-':
		l, err := p.line()
		if err != nil {
			return Value{}, err
		}
		if t == '+' {
			return Value{K: KSimple, S: string(l)}, nil
		}
		return Value{K: KErr, S: string(l)}, nil
	case ':':
		l, err := p.line()
		if err != nil {
			return Value{}, err
		}
		n, err := strictInt(l)
		if err != nil {
			return Value{}, err
		}
		return Value{K: KInt, I: n}, nil
	case '$', '!', '=':
		l, err := p.line()
		if err != nil {
			return Value{}, err
		}
		n, err := strictInt(l)
		if err != nil {
			return Value{}, err
		}
		if t == '$' && n == -1 {
			if p.proto == 3 {
				return Value{}, errors.New("RESP2 null bulk '$-1' on a RESP3 connection")
			}
			return Value{K: KNil, NilForm: "$-1"}, nil
		}
		s, err := p.blob(n)
		if err != nil {
			return Value{}, err
		}
		switch t {
		case '$':
			return Value{K: KBulk, S: s}, nil
		case '!':
			return Value{K: KBlobErr, S: s}, nil
		default:
			if len(s) < 4 || s[3] != ':' {
				return Value{}, fmt.Errorf("verbatim string without 3-char format prefix: %q", s)
			}
			return Value{K: KVerbatim, S: s[4:]}, nil
		}
	case '*', '~', '>', '%', '|':
		l, err := p.line()
		if err != nil {
			return Value{}, err
		}
		n, err := strictInt(l)
		if err != nil {
			return Value{}, err
		}
		if t == '*' && n == -1 {
			if p.proto == 3 {
				return Value{}, errors.New("RESP2 null array '*-1' on a RESP3 connection")
			}
			return Value{K: KNil, NilForm: "*-1"}, nil
		}
		if n < 0 {
			return Value{}, fmt.Errorf("negative aggregate count %d", n)
		}
		cnt := n
		k := KArr
		switch t {
		case '~':
			k = KSet
		case '>':
			k = KPush
		case '%':
			k = KMap
			cnt = 2 * n
		case '|':
			k = KAttr
			cnt = 2 * n
		}
		if cnt > int64(len(p.b)) { // cannot possibly be complete
			return Value{}, ErrIncomplete
		}
		v := Value{K: k, A: make([]Value, 0, cnt)}
		for i := int64(0); i < cnt; i++ {
			e, err := p.value(depth + 1)
			if err != nil {
				return Value{}, err
			}
			v.A = append(v.A, e)
		}
		return v, nil
	case '_':
		l, err := p.line()
		if err != nil {
			return Value{}, err
		}
		if len(l) != 0 {
			return Value{}, fmt.Errorf("garbage after '_': %q", l)
		}
		return Value{K: KNil, NilForm: "_"}, nil
	case '#':
		l, err := p.line()
		if err != nil {
			return Value{}, err
		}
		switch string(l) {
		case "t":
			return Value{K: KBool, I: 1}, nil
		case "f":
			return Value{K: KBool, I: 0}, nil
		}
		return Value{}, fmt.Errorf("bad boolean %q", l)
	case ',':
		l, err := p.line()
		if err != nil {
			return Value{}, err
		}
		s := string(l)
		if s != "inf" && s != "-inf" && s != "nan" {
			if _, err := strconv.ParseFloat(s, 64); err != nil || s == "" {
				return Value{}, fmt.Errorf("bad double %q", s)
			}
		}
		return Value{K: KDouble, S: s}, nil
	case '(':
		l, err := p.line()
		if err != nil {
			return Value{}, err
		}
		s := string(l)
		d := strings.TrimPrefix(s, "-")
		if d == "" || strings.Trim(d, "0123456789") != "" {
			return Value{}, fmt.Errorf("bad big number %q", s)
		}
		return Value{K: KBig, S: s}, nil
	}
	p.pos = start
	return Value{}, fmt.Errorf("unknown type byte %q at offset %d", t, start)
}

// Encode serialises a value (used by the parser's own round-trip property and by hostile-input generators).
func (v Value) Encode() []byte {
	var b bytes.Buffer
	v.encode(&b)
	return b.Bytes()
}

func (v Value) encode(b *bytes.Buffer) {
	switch v.K {
	case KNil:
		f := v.NilForm
		if f == "" {
			f = "$-1"
		}
		b.WriteString(f + "\r\n")
	case KInt:
		fmt.Fprintf(b, ":%d\r\n", v.I)
	case KBulk:
		fmt.Fprintf(b, "$%d\r\n%s\r\n", len(v.S), v.S)
	case KBlobErr:
		fmt.Fprintf(b, "!%d\r\n%s\r\n", len(v.S), v.S)
	case KVerbatim:
		fmt.Fprintf(b, "=%d\r\ntxt:%s\r\n", len(v.S)+4, v.S)
	case KSimple:
		b.WriteString("+" + v.S + "\r\n")
	case KErr:
		b.WriteString("-" + v.S + "\r\n")
	case KDouble:
		b.WriteString("," + v.S + "\r\n")
	case KBig:
		b.WriteString("(" + v.S + "\r\n")
	case KBool:
		if v.I != 0 {
			b.WriteString("#t\r\n")
		} else {
			b.WriteString("#f\r\n")
		}
	case KArr, KSet, KPush:
		c := map[Kind]string{KArr: "*", KSet: "~", KPush: ">"}[v.K]
		fmt.Fprintf(b, "%s%d\r\n", c, len(v.A))
		for _, e := range v.A {
			e.encode(b)
		}
	case KMap, KAttr:
		c := map[Kind]string{KMap: "%", KAttr: "|"}[v.K]
		fmt.Fprintf(b, "%s%d\r\n", c, len(v.A)/2)
		for _, e := range v.A {
			e.encode(b)
		}
	}
}

// ---- constructors -------------------------------------------------------------------------------

func Nil() Value            { return Value{K: KNil} }
func Int(n int64) Value     { return Value{K: KInt, I: n} }
func Bulk(s string) Value   { return Value{K: KBulk, S: s} }
func Simple(s string) Value { return Value{K: KSimple, S: s} }
func Err(s string) Value    { return Value{K: KErr, S: s} }
func Arr(a ...Value) Value {
	if a == nil {
		a = []Value{}
	}
	return Value{K: KArr, A: a}
}
func Bulks(ss ...string) Value {
	a := make([]Value, len(ss))
	for i, s := range ss {
		a[i] = Bulk(s)
	}
	return Value{K: KArr, A: a}
}

func (v Value) IsErr() bool    { return v.K == KErr || v.K == KBlobErr }
func (v Value) IsNil() bool    { return v.K == KNil }
func (v Value) IsString() bool { return v.K == KBulk || v.K == KSimple || v.K == KVerbatim }

// ErrClass returns the first word of an error reply ("WRONGTYPE", "ERR", "EXECABORT", ...).
func (v Value) ErrClass() string {
	if !v.IsErr() {
		return ""
	}
	s := v.S
	if i := strings.IndexByte(s, ' '); i >= 0 {
		s = s[:i]
	}
	return s
}

// String renders a value compactly for messages and samples.
func (v Value) String() string {
	switch v.K {
	case KNil:
		return "(nil)"
	case KInt:
		return fmt.Sprintf("(int %d)", v.I)
	case KBool:
		return fmt.Sprintf("(bool %d)", v.I)
	case KBulk, KVerbatim:
		return strconv.Quote(clip(v.S))
	case KSimple:
		return "+" + strconv.Quote(clip(v.S))
	case KErr, KBlobErr:
		return "-" + strconv.Quote(clip(v.S))
	case KDouble:
		return "(double " + v.S + ")"
	case KBig:
		return "(big " + v.S + ")"
	}
	open, cl := "[", "]"
	switch v.K {
	case KMap, KAttr:
		open, cl = "{", "}"
	case KSet:
		open, cl = "~[", "]"
	case KPush:
		open, cl = ">[", "]"
	}
	parts := make([]string, 0, len(v.A))
	for i, e := range v.A {
		if i >= 40 {
			parts = append(parts, fmt.Sprintf("...(%d more)", len(v.A)-i))
			break
		}
		parts = append(parts, e.String())
	}
	return open + strings.Join(parts, " ") + cl
}

func clip(s string) string {
	if len(s) > 80 {
		return s[:60] + fmt.Sprintf("...(%d bytes)", len(s))
	}
	return s
}

// Canon converts a value into the protocol-independent canonical form used to compare values:
// simple/bulk/verbatim -> bulk; map/attr -> flat array; set/push -> array; double/big -> bulk of text;
// bool -> int; recursive. This is the down-conversion table of property C15.
func (v Value) Canon() Value {
	switch v.K {
	case KSimple, KVerbatim, KDouble, KBig:
		return Value{K: KBulk, S: v.S}
	case KBool:
		return Value{K: KInt, I: v.I}
	case KBlobErr:
		return Value{K: KErr, S: v.S}
	case KNil:
		return Value{K: KNil}
	case KArr, KMap, KSet, KPush, KAttr:
		a := make([]Value, len(v.A))
		for i, e := range v.A {
			a[i] = e.Canon()
		}
		return Value{K: KArr, A: a}
	}
	return v
}

// Equal compares canonical forms exactly (order sensitive).
func Equal(a, b Value) bool {
	a, b = a.Canon(), b.Canon()
	return equalCanon(a, b)
}

func equalCanon(a, b Value) bool {
	if a.K != b.K {
		return false
	}
	switch a.K {
	case KNil:
		return true
	case KInt:
		return a.I == b.I
	case KBulk, KErr:
		return a.S == b.S
	case KArr:
		if len(a.A) != len(b.A) {
			return false
		}
		for i := range a.A {
			if !equalCanon(a.A[i], b.A[i]) {
				return false
			}
		}
		return true
	}
	return false
}

// Key returns a total-order key of the canonical form (used to sort for multiset comparison).
func (v Value) Key() string {
	c := v.Canon()
	var sb strings.Builder
	c.key(&sb)
	return sb.String()
}

func (v Value) key(sb *strings.Builder) {
	switch v.K {
	case KNil:
		sb.WriteString("N;")
	case KInt:
		fmt.Fprintf(sb, "I%d;", v.I)
	case KBulk:
		fmt.Fprintf(sb, "S%d:%s;", len(v.S), v.S)
	case KErr:
		fmt.Fprintf(sb, "E%d:%s;", len(v.S), v.S)
	case KArr:
		fmt.Fprintf(sb, "A%d[", len(v.A))
		for _, e := range v.A {
			e.key(sb)
		}
		sb.WriteString("]")
	}
}

// EqualUnordered compares two arrays (after canonicalisation) as multisets of their elements.
func EqualUnordered(a, b Value) bool {
	a, b = a.Canon(), b.Canon()
	if a.K != KArr || b.K != KArr || len(a.A) != len(b.A) {
		return false
	}
	ka, kb := make([]string, len(a.A)), make([]string, len(b.A))
	for i := range a.A {
		ka[i] = a.A[i].Key()
		kb[i] = b.A[i].Key()
	}
	sort.Strings(ka)
	sort.Strings(kb)
	for i := range ka {
		if ka[i] != kb[i] {
			return false
		}
	}
	return true
}

// Strings returns the elements of an array reply as strings (nil elements become "\x00<nil>").
func (v Value) Strings() ([]string, bool) {
	c := v.Canon()
	if c.K != KArr {
		return nil, false
	}
	out := make([]string, len(c.A))
	for i, e := range c.A {
		switch e.K {
		case KBulk:
			out[i] = e.S
		case KInt:
			out[i] = strconv.FormatInt(e.I, 10)
		case KNil:
			out[i] = "\x00<nil>"
		default:
			return nil, false
		}
	}
	return out, true
}
