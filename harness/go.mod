module verifharness

go 1.23

toolchain go1.23.5

require (
	github.com/jimsnab/go-lane v1.30.0
	github.com/jimsnab/go-redisemu v0.0.0
	pgregory.net/rapid v1.3.0
)

require github.com/google/uuid v1.6.0 // indirect

replace github.com/jimsnab/go-redisemu => /repo
