package model

import (
	"fmt"
	"math"
	"strconv"

	"verifharness/kit"
)

func init() {
	reg(cmdHset, "HSET", "HMSET")
	reg(cmdHsetnx, "HSETNX")
	reg(cmdHget, "HGET")
	reg(cmdHmget, "HMGET")
	reg(cmdHgetall, "HGETALL", "HKEYS", "HVALS")
	reg(cmdHlen, "HLEN")
	reg(cmdHexists, "HEXISTS")
	reg(cmdHstrlen, "HSTRLEN")
	reg(cmdHdel, "HDEL")
	reg(cmdHincrby, "HINCRBY")
	reg(cmdHincrbyfloat, "HINCRBYFLOAT")
	reg(cmdHrandfield, "HRANDFIELD")
}

func (db *DB) hashForWrite(key string, tm Time) (*Obj, bool) {
	o, wrong := db.typed(key, THash, tm)
	if wrong {
		return nil, true
	}
	if o == nil {
		o = &Obj{T: THash, Hash: map[string]string{}}
		db.Keys[key] = o
	}
	return o, false
}

func cmdHset(db *DB, name string, a []string, tm Time) Exp {
	if len(a) < 3 || len(a)%2 != 1 {
		return arityErr()
	}
	o, wrong := db.hashForWrite(a[0], tm)
	if wrong {
		return WrongType()
	}
	added := int64(0)
	for i := 1; i < len(a); i += 2 {
		if _, ok := o.Hash[a[i]]; !ok {
			added++
		}
		o.Hash[a[i]] = a[i+1]
	}
	if name == "HMSET" {
		return OK()
	}
	return IntE(added)
}

func cmdHsetnx(db *DB, _ string, a []string, tm Time) Exp {
	if len(a) != 3 {
		return arityErr()
	}
	o, wrong := db.typed(a[0], THash, tm)
	if wrong {
		return WrongType()
	}
	if o != nil {
		if _, ok := o.Hash[a[1]]; ok {
			return IntE(0)
		}
	}
	o, _ = db.hashForWrite(a[0], tm)
	o.Hash[a[1]] = a[2]
	return IntE(1)
}

func cmdHget(db *DB, _ string, a []string, tm Time) Exp {
	if len(a) != 2 {
		return arityErr()
	}
	o, wrong := db.typed(a[0], THash, tm)
	if wrong {
		return WrongType()
	}
	if o == nil {
		return NilE()
	}
	if v, ok := o.Hash[a[1]]; ok {
		return BulkE(v)
	}
	return NilE()
}

func cmdHmget(db *DB, _ string, a []string, tm Time) Exp {
	if len(a) < 2 {
		return arityErr()
	}
	o, wrong := db.typed(a[0], THash, tm)
	if wrong {
		return WrongType()
	}
	out := make([]kit.Value, len(a)-1)
	for i, f := range a[1:] {
		out[i] = kit.Nil()
		if o != nil {
			if v, ok := o.Hash[f]; ok {
				out[i] = kit.Bulk(v)
			}
		}
	}
	return Val(kit.Arr(out...))
}

func cmdHgetall(db *DB, name string, a []string, tm Time) Exp {
	if len(a) != 1 {
		return arityErr()
	}
	o, wrong := db.typed(a[0], THash, tm)
	if wrong {
		return WrongType()
	}
	m := map[string]string{}
	if o != nil {
		m = o.Hash
	}
	switch name {
	case "HKEYS":
		return Unordered(sortedKeys(m))
	case "HVALS":
		vs := []string{}
		for _, k := range sortedKeys(m) {
			vs = append(vs, m[k])
		}
		return Unordered(vs)
	}
	return PairsE(m)
}

func cmdHlen(db *DB, _ string, a []string, tm Time) Exp {
	if len(a) != 1 {
		return arityErr()
	}
	o, wrong := db.typed(a[0], THash, tm)
	if wrong {
		return WrongType()
	}
	if o == nil {
		return IntE(0)
	}
	return IntE(int64(len(o.Hash)))
}

func cmdHexists(db *DB, _ string, a []string, tm Time) Exp {
	if len(a) != 2 {
		return arityErr()
	}
	o, wrong := db.typed(a[0], THash, tm)
	if wrong {
		return WrongType()
	}
	if o != nil {
		if _, ok := o.Hash[a[1]]; ok {
			return IntE(1)
		}
	}
	return IntE(0)
}

func cmdHstrlen(db *DB, _ string, a []string, tm Time) Exp {
	if len(a) != 2 {
		return arityErr()
	}
	o, wrong := db.typed(a[0], THash, tm)
	if wrong {
		return WrongType()
	}
	if o != nil {
		return IntE(int64(len(o.Hash[a[1]])))
	}
	return IntE(0)
}

func cmdHdel(db *DB, _ string, a []string, tm Time) Exp {
	if len(a) < 2 {
		return arityErr()
	}
	o, wrong := db.typed(a[0], THash, tm)
	if wrong {
		return WrongType()
	}
	n := int64(0)
	if o != nil {
		for _, f := range a[1:] {
			if _, ok := o.Hash[f]; ok {
				delete(o.Hash, f)
				n++
			}
		}
		db.dropIfEmpty(a[0])
	}
	return IntE(n)
}

func cmdHincrby(db *DB, _ string, a []string, tm Time) Exp {
	if len(a) != 3 {
		return arityErr()
	}
	v, e, ok := ints(a[2])
	if !ok {
		return e
	}
	delta := v[0]
	o, wrong := db.typed(a[0], THash, tm)
	if wrong {
		return WrongType()
	}
	cur := int64(0)
	if o != nil {
		if s, ok := o.Hash[a[1]]; ok {
			c, ok := parseInt(s)
			if !ok {
				if looseInt(s) {
					return Any("stored field is a non-canonical integer")
				}
				return ErrE("ERR")
			}
			cur = c
		}
	}
	if (delta > 0 && cur > math.MaxInt64-delta) || (delta < 0 && cur < math.MinInt64-delta) {
		return ErrE("ERR")
	}
	o, _ = db.hashForWrite(a[0], tm)
	cur += delta
	o.Hash[a[1]] = strconv.FormatInt(cur, 10)
	return IntE(cur)
}

func cmdHincrbyfloat(db *DB, _ string, a []string, tm Time) Exp {
	if len(a) != 3 {
		return arityErr()
	}
	inc, exact, valid := exactFloat(a[2])
	o, wrong := db.typed(a[0], THash, tm)
	if !valid || math.IsInf(inc, 0) || math.IsNaN(inc) {
		return badArg()
	}
	if wrong {
		return WrongType()
	}
	if !exact {
		return Any("increment is not an exact small binary fraction")
	}
	cur := 0.0
	if o != nil {
		if s, ok := o.Hash[a[1]]; ok {
			c, ex, v := exactFloat(s)
			if !v {
				return ErrE("ERR")
			}
			if !ex {
				return Any("stored field is not an exact small binary fraction")
			}
			cur = c
		}
	}
	o, _ = db.hashForWrite(a[0], tm)
	cur += inc
	o.Hash[a[1]] = fmtFloat(cur)
	return BulkE(o.Hash[a[1]])
}

// flattenPairs turns [[k v] [k v]] (RESP3 HRANDFIELD WITHVALUES) or [k v k v] into [k v k v].
func flattenPairs(v kit.Value) (kit.Value, bool) {
	c := v.Canon()
	if c.K != kit.KArr {
		return c, false
	}
	nested := len(c.A) > 0
	for _, e := range c.A {
		if e.K != kit.KArr || len(e.A) != 2 {
			nested = false
		}
	}
	if !nested {
		return c, len(c.A)%2 == 0
	}
	out := []kit.Value{}
	for _, e := range c.A {
		out = append(out, e.A...)
	}
	return kit.Arr(out...), true
}

func cmdHrandfield(db *DB, _ string, a []string, tm Time) Exp {
	if len(a) < 1 || len(a) > 3 {
		return arityErr()
	}
	hasCount := len(a) >= 2
	withValues := false
	cnt := int64(1)
	if hasCount {
		v, e, ok := ints(a[1])
		if !ok {
			return e
		}
		cnt = v[0]
		if len(a) == 3 {
			if up(a[2]) != "WITHVALUES" {
				return syntaxErr()
			}
			withValues = true
		}
	}
	o, wrong := db.typed(a[0], THash, tm)
	if wrong {
		return WrongType()
	}
	if o == nil {
		if hasCount {
			return ArrE()
		}
		return NilE()
	}
	h := map[string]string{}
	for k, v := range o.Hash {
		h[k] = v
	}
	if !hasCount {
		return Pred(func(v kit.Value) error {
			if !v.IsString() {
				return fmt.Errorf("expected a field name")
			}
			if _, ok := h[v.S]; !ok {
				return fmt.Errorf("%q is not a field of the hash", v.S)
			}
			return nil
		})
	}
	if cnt < -(1<<31) || cnt > (1<<31) {
		return Any("HRANDFIELD count beyond 2^31 (resource bound / value out of range)")
	}
	return Pred(func(v kit.Value) error {
		flat := v.Canon()
		if flat.K != kit.KArr {
			return fmt.Errorf("expected an array")
		}
		if withValues {
			f, ok := flattenPairs(v)
			if !ok {
				return fmt.Errorf("WITHVALUES reply is not a list of pairs")
			}
			flat = f
		}
		var fields []string
		step := 1
		if withValues {
			step = 2
		}
		for i := 0; i < len(flat.A); i += step {
			e := flat.A[i]
			if e.K != kit.KBulk {
				return fmt.Errorf("element %d is not a string", i)
			}
			val, ok := h[e.S]
			if !ok {
				return fmt.Errorf("%q is not a field of the hash", e.S)
			}
			if withValues && (flat.A[i+1].K != kit.KBulk || flat.A[i+1].S != val) {
				return fmt.Errorf("value of field %q is %q, reply has %s", e.S, val, flat.A[i+1])
			}
			fields = append(fields, e.S)
		}
		if cnt >= 0 {
			want := cnt
			if int64(len(h)) < want {
				want = int64(len(h))
			}
			if int64(len(fields)) != want {
				return fmt.Errorf("expected %d distinct fields, got %d", want, len(fields))
			}
			seen := map[string]bool{}
			for _, f := range fields {
				if seen[f] {
					return fmt.Errorf("field %q repeated for a positive count", f)
				}
				seen[f] = true
			}
		} else if int64(len(fields)) != -cnt {
			return fmt.Errorf("expected exactly %d fields, got %d", -cnt, len(fields))
		}
		return nil
	})
}
