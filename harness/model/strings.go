package model

import (
	"fmt"
	"math"
	"strconv"
	"strings"

	"verifharness/kit"
)

func init() {
	reg(cmdSet, "SET")
	reg(cmdSetnx, "SETNX")
	reg(cmdSetex, "SETEX", "PSETEX")
	reg(cmdGet, "GET")
	reg(cmdGetset, "GETSET")
	reg(cmdGetdel, "GETDEL")
	reg(cmdGetex, "GETEX")
	reg(cmdMget, "MGET")
	reg(cmdMset, "MSET", "MSETNX")
	reg(cmdAppend, "APPEND")
	reg(cmdStrlen, "STRLEN")
	reg(cmdGetrange, "GETRANGE", "SUBSTR")
	reg(cmdSetrange, "SETRANGE")
	reg(cmdIncr, "INCR", "DECR", "INCRBY", "DECRBY")
	reg(cmdIncrbyfloat, "INCRBYFLOAT")
	reg(cmdLcs, "LCS")
}

const maxRelSeconds = int64(1) << 40 // beyond this Redis' own arithmetic may overflow: don't-care

// applyDeadline sets the deadline of key according to unit ("EX","PX","EXAT","PXAT") and value.
// Returns false for an invalid expire time. A deadline in the past deletes the key.
func (db *DB) applyDeadline(key string, unit string, n int64, tm Time) {
	o := db.Keys[key]
	if o == nil {
		return
	}
	var lo, hi int64
	switch unit {
	case "EX":
		lo, hi = tm.Lo+n*1000-1, tm.Hi+n*1000
	case "PX":
		lo, hi = tm.Lo+n-1, tm.Hi+n
	case "EXAT":
		lo, hi = n*1000, n*1000
	case "EXAT~":
		// SET/GETEX ... EXAT: a deadline given in whole seconds is accepted anywhere inside that second
		// ("within clock granularity"); the emulator deliberately adds the current sub-second offset
		lo, hi = n*1000, n*1000+999
	case "PXAT":
		lo, hi = n, n
	}
	o.HasTTL, o.DLo, o.DHi = true, lo, hi
	if hi <= tm.Lo {
		delete(db.Keys, key)
	} else if lo <= tm.Hi {
		db.Ambiguous = true
	}
}

func cmdSet(db *DB, _ string, a []string, tm Time) Exp {
	if len(a) < 2 {
		return arityErr()
	}
	key, val := a[0], a[1]
	var nx, xx, get, keepttl bool
	unit := ""
	var n int64
	for i := 2; i < len(a); i++ {
		switch up(a[i]) {
		case "NX":
			nx = true
		case "XX":
			xx = true
		case "GET":
			get = true
		case "KEEPTTL":
			if unit != "" {
				return syntaxErr()
			}
			keepttl = true
		case "EX", "PX", "EXAT", "PXAT":
			if unit != "" || keepttl || i+1 >= len(a) {
				return syntaxErr()
			}
			unit = up(a[i])
			v, ok := parseInt(a[i+1])
			if !ok {
				if looseInt(a[i+1]) {
					return Any("non-canonical integer")
				}
				return ErrE("ERR")
			}
			n = v
			i++
		default:
			return syntaxErr()
		}
	}
	if nx && xx {
		return syntaxErr()
	}
	if unit != "" && n <= 0 {
		return ErrE("ERR")
	}
	if unit != "" && n > maxRelSeconds*1000 {
		return Any("huge expire")
	}
	o := db.lookup(key, tm)
	ret := OK()
	if get {
		if o != nil && o.T != TString {
			return WrongType()
		}
		if o != nil {
			ret = BulkE(o.Str)
		} else {
			ret = NilE()
		}
	}
	if (nx && o != nil) || (xx && o == nil) {
		if !get {
			return NilE()
		}
		return ret
	}
	no := &Obj{T: TString, Str: val}
	if keepttl && o != nil {
		no.HasTTL, no.DLo, no.DHi = o.HasTTL, o.DLo, o.DHi
	}
	db.Keys[key] = no
	if unit != "" {
		if unit == "EXAT" {
			unit = "EXAT~"
		}
		db.applyDeadline(key, unit, n, tm)
	}
	return ret
}

func cmdSetnx(db *DB, _ string, a []string, tm Time) Exp {
	if len(a) != 2 {
		return arityErr()
	}
	if db.lookup(a[0], tm) != nil {
		return IntE(0)
	}
	db.setStr(a[0], a[1])
	return IntE(1)
}

func cmdSetex(db *DB, name string, a []string, tm Time) Exp {
	if len(a) != 3 {
		return arityErr()
	}
	n, ok := parseInt(a[1])
	if !ok {
		if looseInt(a[1]) {
			return Any("non-canonical integer")
		}
		return ErrE("ERR")
	}
	if n <= 0 {
		return ErrE("ERR")
	}
	if n > maxRelSeconds {
		return Any("huge expire")
	}
	db.setStr(a[0], a[2])
	unit := "EX"
	if name == "PSETEX" {
		unit = "PX"
	}
	db.applyDeadline(a[0], unit, n, tm)
	return OK()
}

func cmdGet(db *DB, _ string, a []string, tm Time) Exp {
	if len(a) != 1 {
		return arityErr()
	}
	o, wrong := db.typed(a[0], TString, tm)
	if wrong {
		return WrongType()
	}
	if o == nil {
		return NilE()
	}
	return BulkE(o.Str)
}

func cmdGetset(db *DB, _ string, a []string, tm Time) Exp {
	if len(a) != 2 {
		return arityErr()
	}
	o, wrong := db.typed(a[0], TString, tm)
	if wrong {
		return WrongType()
	}
	ret := NilE()
	if o != nil {
		ret = BulkE(o.Str)
	}
	db.setStr(a[0], a[1])
	return ret
}

func cmdGetdel(db *DB, _ string, a []string, tm Time) Exp {
	if len(a) != 1 {
		return arityErr()
	}
	o, wrong := db.typed(a[0], TString, tm)
	if wrong {
		return WrongType()
	}
	if o == nil {
		return NilE()
	}
	db.del(a[0])
	return BulkE(o.Str)
}

func cmdGetex(db *DB, _ string, a []string, tm Time) Exp {
	if len(a) < 1 {
		return arityErr()
	}
	unit := ""
	var n int64
	persist := false
	for i := 1; i < len(a); i++ {
		switch up(a[i]) {
		case "PERSIST":
			if unit != "" || persist {
				return syntaxErr()
			}
			persist = true
		case "EX", "PX", "EXAT", "PXAT":
			if unit != "" || persist || i+1 >= len(a) {
				return syntaxErr()
			}
			unit = up(a[i])
			v, ok := parseInt(a[i+1])
			if !ok {
				if looseInt(a[i+1]) {
					return Any("non-canonical integer")
				}
				return ErrE("ERR")
			}
			n = v
			i++
		default:
			return syntaxErr()
		}
	}
	if unit != "" && n <= 0 {
		return ErrE("ERR")
	}
	if unit != "" && n > maxRelSeconds*1000 {
		return Any("huge expire")
	}
	o, wrong := db.typed(a[0], TString, tm)
	if wrong {
		return WrongType()
	}
	if o == nil {
		return NilE()
	}
	ret := BulkE(o.Str)
	if persist {
		o.HasTTL = false
	} else if unit != "" {
		if unit == "EXAT" {
			unit = "EXAT~"
		}
		db.applyDeadline(a[0], unit, n, tm)
	}
	return ret
}

func cmdMget(db *DB, _ string, a []string, tm Time) Exp {
	if len(a) < 1 {
		return arityErr()
	}
	out := make([]kit.Value, len(a))
	for i, k := range a {
		o := db.lookup(k, tm)
		if o != nil && o.T == TString {
			out[i] = kit.Bulk(o.Str)
		} else {
			out[i] = kit.Nil()
		}
	}
	return Val(kit.Arr(out...))
}

func cmdMset(db *DB, name string, a []string, tm Time) Exp {
	if len(a) < 2 || len(a)%2 != 0 {
		return arityErr()
	}
	if name == "MSETNX" {
		for i := 0; i < len(a); i += 2 {
			if db.lookup(a[i], tm) != nil {
				return IntE(0)
			}
		}
	}
	for i := 0; i < len(a); i += 2 {
		db.setStr(a[i], a[i+1])
	}
	if name == "MSETNX" {
		return IntE(1)
	}
	return OK()
}

func cmdAppend(db *DB, _ string, a []string, tm Time) Exp {
	if len(a) != 2 {
		return arityErr()
	}
	o, wrong := db.typed(a[0], TString, tm)
	if wrong {
		return WrongType()
	}
	if o == nil {
		o = db.setStr(a[0], "")
	}
	o.Str += a[1]
	return IntE(int64(len(o.Str)))
}

func cmdStrlen(db *DB, _ string, a []string, tm Time) Exp {
	if len(a) != 1 {
		return arityErr()
	}
	o, wrong := db.typed(a[0], TString, tm)
	if wrong {
		return WrongType()
	}
	if o == nil {
		return IntE(0)
	}
	return IntE(int64(len(o.Str)))
}

func cmdGetrange(db *DB, _ string, a []string, tm Time) Exp {
	if len(a) != 3 {
		return arityErr()
	}
	start, ok1 := parseInt(a[1])
	end, ok2 := parseInt(a[2])
	if !ok1 || !ok2 {
		if looseInt(a[1]) || looseInt(a[2]) {
			return Any("non-canonical integer")
		}
		return ErrE("ERR")
	}
	o, wrong := db.typed(a[0], TString, tm)
	if wrong {
		return WrongType()
	}
	if o == nil {
		return BulkE("")
	}
	n := int64(len(o.Str))
	if start < 0 && end < 0 && start > end {
		return BulkE("")
	}
	if end < -n {
		// Redis <= 7.2 clamps a too-negative end to 0 (returning the first byte when start is 0),
		// later versions return "": a documented don't-care corner.
		return Any("GETRANGE end before start of string")
	}
	if start < 0 {
		start += n
	}
	if end < 0 {
		end += n
	}
	if start < 0 {
		start = 0
	}
	if end < 0 {
		end = 0
	}
	if end >= n {
		end = n - 1
	}
	if start > end || n == 0 {
		return BulkE("")
	}
	return BulkE(o.Str[start : end+1])
}

func cmdSetrange(db *DB, _ string, a []string, tm Time) Exp {
	if len(a) != 3 {
		return arityErr()
	}
	off, ok := parseInt(a[1])
	if !ok {
		if looseInt(a[1]) {
			return Any("non-canonical integer")
		}
		return ErrE("ERR")
	}
	if off < 0 {
		return ErrE("ERR")
	}
	o, wrong := db.typed(a[0], TString, tm)
	if wrong {
		return WrongType()
	}
	val := a[2]
	if val == "" {
		if o == nil {
			return IntE(0)
		}
		return IntE(int64(len(o.Str)))
	}
	if off > 512*1024*1024 || off+int64(len(val)) > 512*1024*1024 {
		return ErrE("ERR")
	}
	if o == nil {
		o = db.setStr(a[0], "")
	}
	b := []byte(o.Str)
	for int64(len(b)) < off+int64(len(val)) {
		b = append(b, 0)
	}
	copy(b[off:], val)
	o.Str = string(b)
	return IntE(int64(len(b)))
}

func cmdIncr(db *DB, name string, a []string, tm Time) Exp {
	var delta int64
	switch name {
	case "INCR", "DECR":
		if len(a) != 1 {
			return arityErr()
		}
		delta = 1
		if name == "DECR" {
			delta = -1
		}
	default:
		if len(a) != 2 {
			return arityErr()
		}
		d, ok := parseInt(a[1])
		if !ok {
			if looseInt(a[1]) {
				return Any("non-canonical integer")
			}
			return ErrE("ERR")
		}
		if name == "DECRBY" {
			if d == math.MinInt64 {
				return ErrE("ERR")
			}
			d = -d
		}
		delta = d
	}
	o, wrong := db.typed(a[0], TString, tm)
	if wrong {
		return WrongType()
	}
	var cur int64
	if o != nil {
		v, ok := parseInt(o.Str)
		if !ok {
			if looseInt(o.Str) {
				return Any("stored value is a non-canonical integer")
			}
			return ErrE("ERR")
		}
		cur = v
	}
	if (delta > 0 && cur > math.MaxInt64-delta) || (delta < 0 && cur < math.MinInt64-delta) {
		return ErrE("ERR")
	}
	cur += delta
	if o == nil {
		o = db.setStr(a[0], "")
	}
	o.Str = strconv.FormatInt(cur, 10)
	return IntE(cur)
}

// exactFloat parses decimal strings that denote small exact binary fractions (so every implementation
// prints the same digits); anything else is a don't-care.
func exactFloat(s string) (float64, bool, bool) {
	if s == "" || strings.ContainsAny(s, " \t\n+eExX_") || strings.HasPrefix(s, ".") || strings.HasSuffix(s, ".") {
		f, err := strconv.ParseFloat(s, 64)
		_ = f
		return 0, false, err == nil // (value, exact, looselyValid)
	}
	f, err := strconv.ParseFloat(s, 64)
	if err != nil {
		return 0, false, false
	}
	if math.Abs(f) > 1e9 || f*1024 != math.Trunc(f*1024) {
		return f, false, true
	}
	return f, true, true
}

func fmtFloat(f float64) string { return strconv.FormatFloat(f, 'f', -1, 64) }

func cmdIncrbyfloat(db *DB, _ string, a []string, tm Time) Exp {
	if len(a) != 2 {
		return arityErr()
	}
	inc, exact, valid := exactFloat(a[1])
	o, wrong := db.typed(a[0], TString, tm)
	if !valid || math.IsInf(inc, 0) || math.IsNaN(inc) {
		return badArg()
	}
	if wrong {
		return WrongType()
	}
	if !exact {
		return Any("increment is not an exact small binary fraction")
	}
	cur := 0.0
	if o != nil {
		c, ex, v := exactFloat(o.Str)
		if !v {
			return ErrE("ERR")
		}
		if !ex {
			return Any("stored value is not an exact small binary fraction")
		}
		cur = c
	}
	cur += inc
	if o == nil {
		o = db.setStr(a[0], "")
	}
	o.Str = fmtFloat(cur)
	return BulkE(o.Str)
}

// ---- LCS (validity predicate) ----------------------------------------------------------------------------

func lcsLen(x, y string) int {
	prev := make([]int, len(y)+1)
	cur := make([]int, len(y)+1)
	for i := 1; i <= len(x); i++ {
		for j := 1; j <= len(y); j++ {
			if x[i-1] == y[j-1] {
				cur[j] = prev[j-1] + 1
			} else if prev[j] >= cur[j-1] {
				cur[j] = prev[j]
			} else {
				cur[j] = cur[j-1]
			}
		}
		prev, cur = cur, prev
	}
	return prev[len(y)]
}

func isSubseq(s, of string) bool {
	i := 0
	for j := 0; j < len(of) && i < len(s); j++ {
		if s[i] == of[j] {
			i++
		}
	}
	return i == len(s)
}

func cmdLcs(db *DB, _ string, a []string, tm Time) Exp {
	if len(a) < 2 {
		return arityErr()
	}
	var wantLen, idx, withLen bool
	minLen := int64(0)
	for i := 2; i < len(a); i++ {
		switch up(a[i]) {
		case "LEN":
			wantLen = true
		case "IDX":
			idx = true
		case "WITHMATCHLEN":
			withLen = true
		case "MINMATCHLEN":
			if i+1 >= len(a) {
				return syntaxErr()
			}
			v, ok := parseInt(a[i+1])
			if !ok {
				return Any("MINMATCHLEN not canonical")
			}
			if v < 0 {
				v = 0
			}
			minLen = v
			i++
		default:
			return syntaxErr()
		}
	}
	if wantLen && idx {
		return ErrE("ERR")
	}
	o1, w1 := db.typed(a[0], TString, tm)
	o2, w2 := db.typed(a[1], TString, tm)
	if w1 || w2 {
		return ErrE("") // Redis: "ERR The specified keys must contain string values"; emulator WRONGTYPE: class don't-care
	}
	x, y := "", ""
	if o1 != nil {
		x = o1.Str
	}
	if o2 != nil {
		y = o2.Str
	}
	want := lcsLen(x, y)
	if wantLen {
		return IntE(int64(want))
	}
	if !idx {
		return Pred(func(v kit.Value) error {
			if !v.IsString() {
				return fmt.Errorf("not a string")
			}
			if len(v.S) != want {
				return fmt.Errorf("length %d, optimal common subsequence has %d", len(v.S), want)
			}
			if !isSubseq(v.S, x) || !isSubseq(v.S, y) {
				return fmt.Errorf("not a common subsequence of %q and %q", x, y)
			}
			return nil
		})
	}
	return Pred(func(v kit.Value) error {
		c := v.Canon()
		if c.K != kit.KArr || len(c.A) != 4 {
			return fmt.Errorf("IDX reply must be [matches <list> len <n>]")
		}
		var matches *kit.Value
		total := int64(-1)
		for i := 0; i < 4; i += 2 {
			switch c.A[i].S {
			case "matches":
				matches = &c.A[i+1]
			case "len":
				total = c.A[i+1].I
			}
		}
		if matches == nil || total != int64(want) || matches.K != kit.KArr {
			return fmt.Errorf("IDX reply needs matches and len=%d", want)
		}
		sum := int64(0)
		lastA, lastB := int64(len(x)), int64(len(y))
		for _, m := range matches.A {
			need := 2
			if withLen {
				need = 3
			}
			if m.K != kit.KArr || len(m.A) != need || m.A[0].K != kit.KArr || m.A[1].K != kit.KArr || len(m.A[0].A) != 2 || len(m.A[1].A) != 2 {
				return fmt.Errorf("bad match entry %s", m)
			}
			a0, a1, b0, b1 := m.A[0].A[0].I, m.A[0].A[1].I, m.A[1].A[0].I, m.A[1].A[1].I
			if a0 < 0 || a1 < a0 || a1 >= int64(len(x)) || b0 < 0 || b1 < b0 || b1 >= int64(len(y)) || a1-a0 != b1-b0 {
				return fmt.Errorf("match range out of bounds %s", m)
			}
			if x[a0:a1+1] != y[b0:b1+1] {
				return fmt.Errorf("ranges address different substrings %s", m)
			}
			if a1 >= lastA || b1 >= lastB {
				return fmt.Errorf("matches must strictly decrease %s", m)
			}
			lastA, lastB = a0, b0
			l := a1 - a0 + 1
			if l < minLen {
				return fmt.Errorf("match shorter than MINMATCHLEN %s", m)
			}
			if withLen && m.A[2].I != l {
				return fmt.Errorf("match length field wrong %s", m)
			}
			sum += l
		}
		if minLen <= 1 && sum != int64(want) {
			return fmt.Errorf("match lengths sum to %d, LCS length is %d", sum, want)
		}
		if sum > int64(want) {
			return fmt.Errorf("match lengths sum to %d > LCS length %d", sum, want)
		}
		return nil
	})
}
