package model

import (
	"math"
	"math/big"
	"strconv"
	"strings"

	"verifharness/kit"
)

// Bitmap commands (Redis 7.0 bitops.c semantics). A string is a big-endian bit array: bit i is bit
// (7 - i%8) of byte i/8. Everything is done bit by bit; BITFIELD arithmetic is done in math/big and
// reduced to the field width afterwards.
//
// Don't-care corners (the model answers Any and the runner does not execute the command):
//   - integers that Go's ParseInt accepts but Redis' string2ll rejects ("+1", "007", ...);
//   - `#n` offsets whose multiplication by the width overflows a signed 64-bit integer (C undefined behaviour);
//   - valid offsets >= 2^24 (the model does not allocate that much; Redis accepts everything below 2^32);
//   - BITCOUNT key start (no end): syntax error up to 7.x, accepted since 8.0;
//   - BITCOUNT / BITPOS on a missing key together with invalid further arguments: 7.0 answers 0 / -1
//     before looking at them, later versions validate first;
//   - BITCOUNT start end <bad unit> with start < 0, end < 0, start > end: 7.0 answers 0 before looking at the unit;
//   - BITCOUNT / BITPOS with an explicit end below -len (in the unit used) and a start that normalises to 0:
//     7.0 clamps the end to 0 and looks at the first byte/bit, "empty range" is the sane answer (same
//     quirk as GETRANGE, which later versions changed);
//   - BITPOS key 0 (no explicit end) on an empty string value;
//   - BITFIELD ... OVERFLOW SAT SET u<n> off <negative value>: Redis saturates to the maximum (the value
//     is cast to unsigned first), arithmetic saturation says 0;
//   - BITFIELD ... OVERFLOW SAT SET i<n> off <value <= max-2^63>: Redis' range test overflows and
//     saturates to the maximum instead of the minimum;
//   - BITFIELD_RO with an OVERFLOW sub-command;
//   - an OVERFLOW sub-command that is not directly followed by SET or INCRBY (in front of a GET, in front of another
//     OVERFLOW, or last): the server accepts it, the published command syntax only has it as a prefix of a write;
//   - BITFIELD / BITFIELD_RO without any GET/SET/INCRBY sub-command (Redis: empty array);
//   - BITFIELD whose farthest-reaching write fails under OVERFLOW FAIL while it would have grown or created
//     the string: Redis grows/creates it anyway (room is made before the sub-commands run).

func init() {
	reg(cmdSetbit, "SETBIT")
	reg(cmdGetbit, "GETBIT")
	reg(cmdBitcount, "BITCOUNT")
	reg(cmdBitpos, "BITPOS")
	reg(cmdBitop, "BITOP")
	reg(cmdBitfield, "BITFIELD", "BITFIELD_RO")
}

const (
	bitOffsetLimit = int64(1) << 32 // Redis: offset>>3 must be below 512 MB
	modelBitLimit  = int64(1) << 24 // the model itself refuses to materialise longer strings
)

type argState int

const (
	argOK    argState = iota
	argBad            // Redis rejects, and so does every reasonable parser
	argLoose          // Redis rejects, a lenient parser (strconv) accepts: don't-care
)

// intArg is Redis' string2ll with the lenient case reported separately.
func intArg(s string) (int64, argState) {
	if n, ok := parseInt(s); ok {
		return n, argOK
	}
	if n, err := strconv.ParseInt(s, 10, 64); err == nil {
		return n, argLoose
	}
	return 0, argBad
}

// bitOffsetArg is getBitOffsetFromArgument: a non-negative integer below 2^32, optionally (BITFIELD only)
// written as #n meaning n*bits.
func bitOffsetArg(s string, hash bool, bits int) (int64, argState) {
	usehash := hash && bits > 0 && strings.HasPrefix(s, "#")
	if usehash {
		s = s[1:]
	}
	n, st := intArg(s)
	if st != argOK {
		return n, st
	}
	if usehash {
		b := int64(bits)
		if n > math.MaxInt64/b || n < math.MinInt64/b {
			return 0, argLoose // signed overflow in C
		}
		n *= b
	}
	if n < 0 || n >= bitOffsetLimit {
		return n, argBad
	}
	return n, argOK
}

func bitAt(b []byte, i int64) int {
	if i < 0 || i>>3 >= int64(len(b)) {
		return 0
	}
	return int(b[i>>3]>>(7-uint(i&7))) & 1
}

func setBitAt(b []byte, i int64, v int) {
	mask := byte(1) << (7 - uint(i&7))
	if v != 0 {
		b[i>>3] |= mask
	} else {
		b[i>>3] &^= mask
	}
}

// growZero returns b zero-extended to at least n bytes.
func growZero(b []byte, n int64) []byte {
	for int64(len(b)) < n {
		b = append(b, 0)
	}
	return b
}

// errBoth picks the error expectation when the arguments are invalid: if the key also holds the wrong
// type either error may be reported.
func errBoth(wrong bool, e Exp) Exp {
	if wrong {
		return ErrE("")
	}
	return e
}

// ---- SETBIT / GETBIT -----------------------------------------------------------------------------------------

func cmdSetbit(db *DB, _ string, a []string, tm Time) Exp {
	if len(a) != 3 {
		return arityErr()
	}
	off, so := bitOffsetArg(a[1], false, 0)
	bit, sb := intArg(a[2])
	if so == argLoose || sb == argLoose {
		return Any("non-canonical integer")
	}
	o, wrong := db.typed(a[0], TString, tm)
	if _, raw := intArg(a[1]); raw == argBad || sb == argBad {
		return badArg()
	}
	if so == argBad || (bit != 0 && bit != 1) {
		return errBoth(wrong, ErrE("ERR"))
	}
	if wrong {
		return WrongType()
	}
	if off >= modelBitLimit {
		return Any("offset beyond what the model materialises")
	}
	if o == nil {
		o = db.setStr(a[0], "")
	}
	b := growZero([]byte(o.Str), off>>3+1)
	old := bitAt(b, off)
	setBitAt(b, off, int(bit))
	o.Str = string(b)
	return IntE(int64(old))
}

func cmdGetbit(db *DB, _ string, a []string, tm Time) Exp {
	if len(a) != 2 {
		return arityErr()
	}
	off, so := bitOffsetArg(a[1], false, 0)
	if so == argLoose {
		return Any("non-canonical integer")
	}
	o, wrong := db.typed(a[0], TString, tm)
	if _, raw := intArg(a[1]); raw == argBad {
		return badArg()
	}
	if so == argBad {
		return errBoth(wrong, ErrE("ERR"))
	}
	if wrong {
		return WrongType()
	}
	if o == nil {
		return IntE(0)
	}
	return IntE(int64(bitAt([]byte(o.Str), off)))
}

// ---- BITCOUNT / BITPOS -----------------------------------------------------------------------------------------

// bitUnit parses BYTE|BIT.
func bitUnit(s string) (isBit bool, ok bool) {
	switch up(s) {
	case "BIT":
		return true, true
	case "BYTE":
		return false, true
	}
	return false, false
}

// normRange is the index normalisation shared by BITCOUNT and BITPOS (tot = length in the unit used).
// tooNeg reports the 7.0 quirk corner: an end below -tot is clamped to 0 instead of producing an empty range.
func normRange(start, end, tot int64) (s, e int64, tooNeg bool) {
	if start < 0 {
		start += tot
	}
	if end < 0 {
		end += tot
		if end < 0 {
			tooNeg = true
		}
	}
	if start < 0 {
		start = 0
	}
	if end < 0 {
		end = 0
	}
	if end >= tot {
		end = tot - 1
	}
	return start, end, tooNeg
}

func cmdBitcount(db *DB, _ string, a []string, tm Time) Exp {
	if len(a) < 1 {
		return arityErr()
	}
	o, wrong := db.typed(a[0], TString, tm)
	var start, end int64
	isBit := false
	switch {
	case len(a) == 1:
		if wrong {
			return WrongType()
		}
		if o == nil {
			return IntE(0)
		}
		n := int64(0)
		b := []byte(o.Str)
		for i := int64(0); i < int64(len(b))*8; i++ {
			n += int64(bitAt(b, i))
		}
		return IntE(n)
	case len(a) == 2:
		if wrong {
			return ErrE("")
		}
		return Any("BITCOUNT key start: syntax error up to 7.x, accepted since 8.0")
	case len(a) > 4:
		if wrong {
			return ErrE("")
		}
		if o == nil {
			return Any("missing key with invalid arguments: 7.0 replies 0, later versions an error")
		}
		return syntaxErr()
	}
	var s1, s2 argState
	start, s1 = intArg(a[1])
	end, s2 = intArg(a[2])
	if s1 == argLoose || s2 == argLoose {
		return Any("non-canonical integer")
	}
	unitOK := true
	if len(a) == 4 {
		isBit, unitOK = bitUnit(a[3])
	}
	if s1 == argBad || s2 == argBad || !unitOK {
		if wrong {
			return ErrE("")
		}
		if o == nil {
			return Any("missing key with invalid arguments: 7.0 replies 0, later versions an error")
		}
		if s1 == argOK && s2 == argOK && start < 0 && end < 0 && start > end {
			return Any("7.0 replies 0 before it looks at the unit")
		}
		return badArg()
	}
	if wrong {
		return WrongType()
	}
	if o == nil {
		return IntE(0)
	}
	if start < 0 && end < 0 && start > end {
		return IntE(0)
	}
	b := []byte(o.Str)
	tot := int64(len(b))
	if isBit {
		tot *= 8
	}
	s, e, tooNeg := normRange(start, end, tot)
	if s > e {
		return IntE(0)
	}
	if tooNeg {
		return Any("end below -len with start at 0: 7.0 clamps the end to 0")
	}
	lo, hi := s, e
	if !isBit {
		lo, hi = s*8, e*8+7
	}
	n := int64(0)
	for i := lo; i <= hi; i++ {
		n += int64(bitAt(b, i))
	}
	return IntE(n)
}

func cmdBitpos(db *DB, _ string, a []string, tm Time) Exp {
	if len(a) < 2 {
		return arityErr()
	}
	bit, sb := intArg(a[1])
	o, wrong := db.typed(a[0], TString, tm)
	var start, end int64
	s1, s2 := argOK, argOK
	isBit, unitOK, endGiven := false, true, false
	if len(a) >= 3 {
		start, s1 = intArg(a[2])
	}
	if len(a) >= 4 {
		end, s2 = intArg(a[3])
		endGiven = true
	}
	if len(a) >= 5 {
		isBit, unitOK = bitUnit(a[4])
	}
	if sb == argLoose || s1 == argLoose || s2 == argLoose {
		return Any("non-canonical integer")
	}
	if sb == argBad {
		return badArg()
	}
	if bit != 0 && bit != 1 {
		return errBoth(wrong, ErrE("ERR"))
	}
	if len(a) > 5 || s1 == argBad || s2 == argBad || !unitOK {
		if wrong {
			return ErrE("")
		}
		if o == nil {
			return Any("missing key with invalid arguments: 7.0 replies 0/-1, later versions an error")
		}
		return badArg()
	}
	if wrong {
		return WrongType()
	}
	if o == nil {
		if bit == 1 {
			return IntE(-1)
		}
		return IntE(0)
	}
	b := []byte(o.Str)
	nbytes := int64(len(b))
	tot := nbytes
	if isBit {
		tot *= 8
	}
	if len(a) == 2 {
		start, end = 0, nbytes-1
	} else if !endGiven {
		end = tot - 1 // only reachable in BYTE mode: the unit can only follow an explicit end
	}
	s, e, tooNeg := normRange(start, end, tot)
	if s > e {
		if nbytes == 0 && bit == 0 && !endGiven {
			return Any("BITPOS key 0 on an empty string value")
		}
		return IntE(-1)
	}
	if tooNeg {
		return Any("end below -len with start at 0: 7.0 clamps the end to 0")
	}
	lo, hi := s, e
	if !isBit {
		lo, hi = s*8, e*8+7
	}
	for i := lo; i <= hi; i++ {
		if int64(bitAt(b, i)) == bit {
			return IntE(i)
		}
	}
	if bit == 0 && !endGiven {
		// without an explicit end the string is considered padded with zeros on the right
		return IntE(nbytes * 8)
	}
	return IntE(-1)
}

// ---- BITOP ---------------------------------------------------------------------------------------------------

func cmdBitop(db *DB, _ string, a []string, tm Time) Exp {
	if len(a) < 3 {
		return arityErr()
	}
	op := up(a[0])
	anyWrong := false
	var srcs [][]byte
	for _, k := range a[2:] {
		o, wrong := db.typed(k, TString, tm)
		if wrong {
			anyWrong = true
		}
		if o != nil {
			srcs = append(srcs, []byte(o.Str))
		} else {
			srcs = append(srcs, nil)
		}
	}
	switch op {
	case "AND", "OR", "XOR":
	case "NOT":
		if len(a) != 3 {
			return errBoth(anyWrong, ErrE("ERR"))
		}
	default:
		return syntaxErr()
	}
	if anyWrong {
		return WrongType()
	}
	maxlen := 0
	for _, s := range srcs {
		if len(s) > maxlen {
			maxlen = len(s)
		}
	}
	res := make([]byte, maxlen)
	for i := int64(0); i < int64(maxlen)*8; i++ {
		acc := bitAt(srcs[0], i) // bitAt yields 0 beyond the end: zero padding
		if op == "NOT" {
			acc = 1 - acc
		}
		for _, s := range srcs[1:] {
			x := bitAt(s, i)
			switch op {
			case "AND":
				acc &= x
			case "OR":
				acc |= x
			case "XOR":
				acc ^= x
			}
		}
		setBitAt(res, i, acc)
	}
	if maxlen == 0 {
		db.del(a[1])
	} else {
		db.setStr(a[1], string(res)) // replaces the destination whatever it held; no deadline
	}
	return IntE(int64(maxlen))
}

// ---- BITFIELD / BITFIELD_RO --------------------------------------------------------------------------------------

type bfOp struct {
	kind   string // GET, SET, INCRBY
	signed bool
	bits   int
	off    int64
	val    int64
	ow     string // WRAP, SAT, FAIL
}

// bfType is getBitfieldTypeFromArgument: i1..i64, u1..u63 (Redis tests the lower-case letter only).
func bfType(s string) (signed bool, bits int, st argState) {
	if s == "" {
		return false, 0, argBad
	}
	switch s[0] {
	case 'i':
		signed = true
	case 'u':
	default:
		return false, 0, argBad
	}
	n, st := intArg(s[1:])
	if st == argBad {
		return signed, 0, argBad
	}
	if n < 1 || (signed && n > 64) || (!signed && n > 63) {
		return signed, 0, argBad
	}
	return signed, int(n), st
}

var bigOne = big.NewInt(1)

func pow2(n int) *big.Int { return new(big.Int).Lsh(bigOne, uint(n)) }

func bfRange(signed bool, bits int) (min, max *big.Int) {
	if signed {
		max = new(big.Int).Sub(pow2(bits-1), bigOne)
		min = new(big.Int).Neg(pow2(bits - 1))
		return
	}
	return new(big.Int), new(big.Int).Sub(pow2(bits), bigOne)
}

// bfReduce maps any integer to the value of its low `bits` bits read as the given type.
func bfReduce(v *big.Int, signed bool, bits int) *big.Int {
	u := new(big.Int).Mod(v, pow2(bits)) // non-negative
	if signed && u.Cmp(pow2(bits-1)) >= 0 {
		u.Sub(u, pow2(bits))
	}
	return u
}

func bfRead(b []byte, off int64, bits int, signed bool) *big.Int {
	v := new(big.Int)
	for i := 0; i < bits; i++ {
		v.Lsh(v, 1)
		if bitAt(b, off+int64(i)) == 1 {
			v.Or(v, bigOne)
		}
	}
	return bfReduce(v, signed, bits)
}

func bfWrite(b []byte, off int64, bits int, v *big.Int) {
	u := new(big.Int).Mod(v, pow2(bits))
	for i := 0; i < bits; i++ {
		setBitAt(b, off+int64(i), int(u.Bit(bits-1-i)))
	}
}

func cmdBitfield(db *DB, name string, a []string, tm Time) Exp {
	if len(a) < 1 {
		return arityErr()
	}
	ro := name == "BITFIELD_RO"
	o, wrong := db.typed(a[0], TString, tm)
	var ops []bfOp
	ow := "WRAP"
	loose, sawOverflow, owDetached, readonly := false, false, false, true
	highest := int64(-1)
	for j := 1; j < len(a); {
		rem := len(a) - j - 1
		sub := up(a[j])
		switch {
		case sub == "GET" && rem >= 2:
		case (sub == "SET" || sub == "INCRBY") && rem >= 3:
		case sub == "OVERFLOW" && rem >= 1:
			switch up(a[j+1]) {
			case "WRAP", "SAT", "FAIL":
				ow = up(a[j+1])
			default:
				return errBoth(wrong, ErrE("ERR"))
			}
			sawOverflow = true
			j += 2
			if j >= len(a) || (up(a[j]) != "SET" && up(a[j]) != "INCRBY") {
				owDetached = true
			}
			continue
		default:
			return syntaxErr()
		}
		signed, bits, st := bfType(a[j+1])
		if st == argBad {
			return errBoth(wrong, ErrE("ERR"))
		}
		if st == argLoose {
			loose = true
		}
		off, so := bitOffsetArg(a[j+2], true, bits)
		if so == argBad {
			return errBoth(wrong, ErrE("ERR"))
		}
		if so == argLoose {
			loose = true
		}
		op := bfOp{kind: sub, signed: signed, bits: bits, off: off, ow: ow}
		if sub == "GET" {
			j += 3
		} else {
			v, sv := intArg(a[j+3])
			if sv == argBad {
				return badArg()
			}
			if sv == argLoose {
				loose = true
			}
			op.val = v
			readonly = false
			if off+int64(bits)-1 > highest {
				highest = off + int64(bits) - 1
			}
			j += 4
		}
		ops = append(ops, op)
	}
	if loose {
		return Any("non-canonical integer")
	}
	if owDetached {
		if wrong {
			return ErrE("")
		}
		return Any("OVERFLOW not directly followed by SET/INCRBY: accepted by the server, not covered by the documented syntax")
	}
	if len(ops) == 0 {
		if wrong {
			return ErrE("")
		}
		return Any("BITFIELD without any GET/SET/INCRBY: Redis replies an empty array, a degenerate form")
	}
	if ro && !readonly {
		return errBoth(wrong, ErrE("ERR"))
	}
	if ro && sawOverflow {
		return Any("BITFIELD_RO with OVERFLOW")
	}
	if wrong {
		return WrongType()
	}
	var b []byte
	if o != nil {
		b = []byte(o.Str)
	}
	if !readonly {
		if highest >= modelBitLimit {
			return Any("offset beyond what the model materialises")
		}
		// Redis makes room up to the farthest bit of any write sub-command before it executes the
		// first one (even if that write later fails on overflow)
		b = growZero(b, highest>>3+1)
	}
	out := make([]kit.Value, 0, len(ops))
	written := int64(-1) // farthest bit of a write that was actually carried out
	for _, op := range ops {
		old := bfRead(b, op.off, op.bits, op.signed)
		if op.kind == "GET" {
			out = append(out, kit.Int(old.Int64()))
			continue
		}
		min, max := bfRange(op.signed, op.bits)
		var nv *big.Int
		if op.kind == "INCRBY" {
			nv = new(big.Int).Add(old, big.NewInt(op.val))
		} else {
			nv = big.NewInt(op.val)
		}
		over := 0
		if nv.Cmp(max) > 0 {
			over = 1
		} else if nv.Cmp(min) < 0 {
			over = -1
		}
		if over != 0 {
			switch op.ow {
			case "FAIL":
				out = append(out, kit.Nil())
				continue
			case "SAT":
				if op.kind == "SET" && over < 0 {
					if !op.signed {
						return Any("SAT SET of a negative value into an unsigned field: Redis saturates to the maximum")
					}
					// Redis computes max-value in 64 bits; it overflows for value <= max-2^63
					lim := new(big.Int).Sub(max, pow2(63))
					if op.bits != 64 && nv.Cmp(lim) <= 0 {
						return Any("SAT SET of a value near -2^63 into a narrow signed field: Redis saturates to the maximum")
					}
				}
				if over > 0 {
					nv = max
				} else {
					nv = min
				}
			default:
				nv = bfReduce(nv, op.signed, op.bits)
			}
		}
		bfWrite(b, op.off, op.bits, nv)
		if op.off+int64(op.bits)-1 > written {
			written = op.off + int64(op.bits) - 1
		}
		if op.kind == "SET" {
			out = append(out, kit.Int(old.Int64()))
		} else {
			out = append(out, kit.Int(nv.Int64()))
		}
	}
	if !readonly {
		oldLen := int64(0)
		if o != nil {
			oldLen = int64(len(o.Str))
		}
		if int64(len(b)) > oldLen && written>>3+1 < int64(len(b)) {
			// Redis grows (or creates) the string for the farthest write sub-command even when that
			// sub-command then fails; not doing so is arguably the saner behaviour
			return Any("string growth caused only by a write that failed under OVERFLOW FAIL")
		}
		if o == nil {
			o = db.setStr(a[0], "")
		}
		o.Str = string(b) // in place: the deadline stays
	}
	return Val(kit.Arr(out...))
}
