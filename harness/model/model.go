// Package model is a deliberately simple reference model of the Redis 7 commands implemented by
// go-redisemu, written from Redis semantics (not from the emulator's code). Lists are slices, hashes
// and sets are Go maps, bitmaps are handled bit by bit.
package model

import (
	"fmt"
	"sort"
	"strconv"
	"strings"

	"verifharness/kit"
)

type Type int

const (
	TNone Type = iota
	TString
	TList
	THash
	TSet
)

func (t Type) String() string { return [...]string{"none", "string", "list", "hash", "set"}[t] }

// Obj is one key's value.
type Obj struct {
	T    Type
	Str  string
	List []string
	Hash map[string]string
	Set  map[string]struct{}
	// Deadline in absolute unix milliseconds, known to lie in [DLo, DHi]; HasTTL=false means none.
	HasTTL   bool
	DLo, DHi int64
	// Ver counts modifications of this key slot visible to WATCH (bumped by the harness-facing layer).
}

func (o *Obj) clone() *Obj {
	c := *o
	if o.List != nil {
		c.List = append([]string(nil), o.List...)
	}
	if o.Hash != nil {
		c.Hash = make(map[string]string, len(o.Hash))
		for k, v := range o.Hash {
			c.Hash[k] = v
		}
	}
	if o.Set != nil {
		c.Set = make(map[string]struct{}, len(o.Set))
		for k := range o.Set {
			c.Set[k] = struct{}{}
		}
	}
	return &c
}

// DB is one database.
type DB struct {
	Keys map[string]*Obj
	// Ambiguous is set when a deadline fell inside the clock interval of a command: from then on the
	// model cannot know whether the key existed and the runner stops comparing (never on purpose).
	Ambiguous bool
}

func NewDB() *DB { return &DB{Keys: map[string]*Obj{}} }

func (db *DB) Clone() *DB {
	n := NewDB()
	for k, o := range db.Keys {
		n.Keys[k] = o.clone()
	}
	return n
}

// Time is the interval in which the emulator's clock lay while the command executed (unix ms).
type Time struct{ Lo, Hi int64 }

// ---- expectations -----------------------------------------------------------------------------------

type ExpKind int

const (
	EVal       ExpKind = iota // exact canonical value
	EUnordered                // array compared as multiset
	EPairs                    // flat array k,v,k,v compared as multiset of pairs
	EErr                      // error reply of class Class ("" = any error)
	EPred                     // validity predicate
	EAny                      // don't care
)

// Exp is what the model expects as reply.
type Exp struct {
	Kind  ExpKind
	V     kit.Value
	Class string
	Pred  func(kit.Value) error
	Why   string
	Sub   []Exp // EExec: one expectation per queued command
}

func Val(v kit.Value) Exp       { return Exp{Kind: EVal, V: v} }
func OK() Exp                   { return Val(kit.Simple("OK")) }
func IntE(n int64) Exp          { return Val(kit.Int(n)) }
func NilE() Exp                 { return Val(kit.Nil()) }
func BulkE(s string) Exp        { return Val(kit.Bulk(s)) }
func ArrE(ss ...string) Exp     { return Val(kit.Bulks(ss...)) }
func Unordered(ss []string) Exp { return Exp{Kind: EUnordered, V: kit.Bulks(ss...)} }
func ErrE(class string) Exp     { return Exp{Kind: EErr, Class: class} }
func WrongType() Exp            { return ErrE("WRONGTYPE") }
func Any(why string) Exp        { return Exp{Kind: EAny, Why: why} }
func Pred(f func(kit.Value) error) Exp {
	return Exp{Kind: EPred, Pred: f}
}

var specialClasses = map[string]bool{"WRONGTYPE": true, "EXECABORT": true, "UNBLOCKED": true, "NOPROTO": true}

// Match checks a reply against the expectation.
func (e Exp) Match(got kit.Value) error {
	switch e.Kind {
	case EAny:
		return nil
	case EExec:
		return e.matchExec(got)
	case EVal:
		if !kit.Equal(e.V, got) {
			return fmt.Errorf("reply %s, model expects %s", got, e.V)
		}
	case EUnordered:
		if got.IsErr() || !kit.EqualUnordered(e.V, got) {
			return fmt.Errorf("reply %s, model expects (any order) %s", got, e.V)
		}
	case EPairs:
		if got.IsErr() || !kit.EqualUnordered(pairs(e.V), pairs(got.Canon())) {
			return fmt.Errorf("reply %s, model expects (pairs in any order) %s", got, e.V)
		}
	case EErr:
		if !got.IsErr() {
			return fmt.Errorf("reply %s, model expects an error of class %q", got, e.Class)
		}
		c := got.ErrClass()
		switch {
		case e.Class == "":
		case e.Class == "ERR":
			if specialClasses[c] {
				return fmt.Errorf("reply %s, model expects a plain error", got)
			}
		case c != e.Class:
			return fmt.Errorf("reply %s, model expects an error of class %s", got, e.Class)
		}
	case EPred:
		if err := e.Pred(got); err != nil {
			return fmt.Errorf("reply %s invalid: %v", got, err)
		}
	}
	return nil
}

func (e Exp) IsErr() bool { return e.Kind == EErr }

func (e Exp) String() string {
	switch e.Kind {
	case EAny:
		return "<any>"
	case EErr:
		return "<error " + e.Class + ">"
	case EPred:
		return "<predicate>"
	case EUnordered:
		return "<unordered " + e.V.String() + ">"
	case EPairs:
		return "<pairs " + e.V.String() + ">"
	case EExec:
		return fmt.Sprintf("<exec %v>", e.Sub)
	}
	return e.V.String()
}

func pairs(v kit.Value) kit.Value {
	if v.K != kit.KArr || len(v.A)%2 != 0 {
		return kit.Arr(kit.Err("not a flat pair array"))
	}
	// an array of 2-arrays (RESP3 HRANDFIELD) is flattened first by the caller
	out := make([]kit.Value, 0, len(v.A)/2)
	for i := 0; i < len(v.A); i += 2 {
		out = append(out, kit.Arr(v.A[i], v.A[i+1]))
	}
	return kit.Arr(out...)
}

func PairsE(m map[string]string) Exp {
	keys := sortedKeys(m)
	flat := make([]string, 0, 2*len(m))
	for _, k := range keys {
		flat = append(flat, k, m[k])
	}
	return Exp{Kind: EPairs, V: kit.Bulks(flat...)}
}

func sortedKeys[V any](m map[string]V) []string {
	ks := make([]string, 0, len(m))
	for k := range m {
		ks = append(ks, k)
	}
	sort.Strings(ks)
	return ks
}

// ---- argument helpers ---------------------------------------------------------------------------------

// parseInt is Redis' string2ll: canonical signed 64-bit decimal only.
func parseInt(s string) (int64, bool) {
	n, err := strconv.ParseInt(s, 10, 64)
	if err != nil || strconv.FormatInt(n, 10) != s {
		return 0, false
	}
	return n, true
}

// looseInt reports whether Go's ParseInt would accept s although Redis would not (a don't-care corner).
func looseInt(s string) bool {
	_, ok := parseInt(s)
	if ok {
		return false
	}
	_, err := strconv.ParseInt(s, 10, 64)
	return err == nil
}

func up(s string) string { return strings.ToUpper(s) }

// lookup returns the live object for key, removing it when its deadline has certainly passed.
func (db *DB) lookup(key string, tm Time) (o *Obj) {
	o = db.Keys[key]
	if o == nil {
		return nil
	}
	if o.HasTTL {
		if o.DHi <= tm.Lo {
			delete(db.Keys, key)
			return nil
		}
		if o.DLo <= tm.Hi {
			db.Ambiguous = true
		}
	}
	return o
}

// Sweep removes every key whose deadline certainly passed (keeps dumps comparable).
func (db *DB) Sweep(tm Time) {
	for k := range db.Keys {
		db.lookup(k, tm)
	}
}

func (db *DB) del(key string) { delete(db.Keys, key) }

func (db *DB) setStr(key, val string) *Obj {
	o := &Obj{T: TString, Str: val}
	db.Keys[key] = o
	return o
}

// dropIfEmpty removes aggregates that became empty.
func (db *DB) dropIfEmpty(key string) {
	o := db.Keys[key]
	if o == nil {
		return
	}
	switch o.T {
	case TList:
		if len(o.List) == 0 {
			delete(db.Keys, key)
		}
	case THash:
		if len(o.Hash) == 0 {
			delete(db.Keys, key)
		}
	case TSet:
		if len(o.Set) == 0 {
			delete(db.Keys, key)
		}
	}
}

// Result of executing one command on the model.
type Result struct {
	Exp Exp
	// Unknown is set when the model does not implement the command (the caller must not generate it).
	Unknown bool
}

// Exec applies one command (non-transactional, single database) and returns the expected reply.
// On an expected error the model state is unchanged.
func (db *DB) Exec(argv []string, tm Time) Exp {
	if len(argv) == 0 {
		return ErrE("ERR")
	}
	name := up(argv[0])
	a := argv[1:]
	if f, ok := commands[name]; ok {
		return f(db, name, a, tm)
	}
	return Exp{Kind: EAny, Why: "command not modelled: " + name}
}

// Known reports whether the model implements the command.
func Known(name string) bool { _, ok := commands[up(name)]; return ok }

type cmdFn func(db *DB, name string, a []string, tm Time) Exp

var commands = map[string]cmdFn{}

func reg(f cmdFn, names ...string) {
	for _, n := range names {
		commands[n] = f
	}
}

// argument-shape errors: any error class is accepted (which of two simultaneous errors is reported
// first is not a semantic property)
func arityErr() Exp  { return ErrE("") }
func syntaxErr() Exp { return ErrE("") }
func badArg() Exp    { return ErrE("") }

// typed fetches key expecting type t. wrong=true means WRONGTYPE must be replied.
func (db *DB) typed(key string, t Type, tm Time) (o *Obj, wrong bool) {
	o = db.lookup(key, tm)
	if o != nil && o.T != t {
		return nil, true
	}
	return o, false
}
