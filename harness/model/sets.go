package model

import (
	"fmt"

	"verifharness/kit"
)

func init() {
	reg(cmdSadd, "SADD")
	reg(cmdSrem, "SREM")
	reg(cmdScard, "SCARD")
	reg(cmdSismember, "SISMEMBER")
	reg(cmdSmismember, "SMISMEMBER")
	reg(cmdSmembers, "SMEMBERS")
	reg(cmdSmove, "SMOVE")
	reg(cmdSrandmember, "SRANDMEMBER")
	reg(cmdSetAlgebra, "SINTER", "SUNION", "SDIFF", "SINTERSTORE", "SUNIONSTORE", "SDIFFSTORE")
	reg(cmdSintercard, "SINTERCARD")
}

func cmdSadd(db *DB, _ string, a []string, tm Time) Exp {
	if len(a) < 2 {
		return arityErr()
	}
	o, wrong := db.typed(a[0], TSet, tm)
	if wrong {
		return WrongType()
	}
	if o == nil {
		o = &Obj{T: TSet, Set: map[string]struct{}{}}
		db.Keys[a[0]] = o
	}
	n := int64(0)
	for _, m := range a[1:] {
		if _, ok := o.Set[m]; !ok {
			o.Set[m] = struct{}{}
			n++
		}
	}
	return IntE(n)
}

func cmdSrem(db *DB, _ string, a []string, tm Time) Exp {
	if len(a) < 2 {
		return arityErr()
	}
	o, wrong := db.typed(a[0], TSet, tm)
	if wrong {
		return WrongType()
	}
	n := int64(0)
	if o != nil {
		for _, m := range a[1:] {
			if _, ok := o.Set[m]; ok {
				delete(o.Set, m)
				n++
			}
		}
		db.dropIfEmpty(a[0])
	}
	return IntE(n)
}

func cmdScard(db *DB, _ string, a []string, tm Time) Exp {
	if len(a) != 1 {
		return arityErr()
	}
	o, wrong := db.typed(a[0], TSet, tm)
	if wrong {
		return WrongType()
	}
	if o == nil {
		return IntE(0)
	}
	return IntE(int64(len(o.Set)))
}

func cmdSismember(db *DB, _ string, a []string, tm Time) Exp {
	if len(a) != 2 {
		return arityErr()
	}
	o, wrong := db.typed(a[0], TSet, tm)
	if wrong {
		return WrongType()
	}
	if o != nil {
		if _, ok := o.Set[a[1]]; ok {
			return IntE(1)
		}
	}
	return IntE(0)
}

func cmdSmismember(db *DB, _ string, a []string, tm Time) Exp {
	if len(a) < 2 {
		return arityErr()
	}
	o, wrong := db.typed(a[0], TSet, tm)
	if wrong {
		return WrongType()
	}
	out := make([]kit.Value, len(a)-1)
	for i, m := range a[1:] {
		out[i] = kit.Int(0)
		if o != nil {
			if _, ok := o.Set[m]; ok {
				out[i] = kit.Int(1)
			}
		}
	}
	return Val(kit.Arr(out...))
}

func cmdSmembers(db *DB, _ string, a []string, tm Time) Exp {
	if len(a) != 1 {
		return arityErr()
	}
	o, wrong := db.typed(a[0], TSet, tm)
	if wrong {
		return WrongType()
	}
	if o == nil {
		return Unordered(nil)
	}
	return Unordered(sortedKeys(o.Set))
}

func cmdSmove(db *DB, _ string, a []string, tm Time) Exp {
	if len(a) != 3 {
		return arityErr()
	}
	so := db.lookup(a[0], tm)
	do := db.lookup(a[1], tm)
	if so == nil {
		return IntE(0)
	}
	if so.T != TSet || (do != nil && do.T != TSet) {
		return WrongType()
	}
	_, in := so.Set[a[2]]
	if a[0] == a[1] {
		if in {
			return IntE(1)
		}
		return IntE(0)
	}
	if !in {
		return IntE(0)
	}
	delete(so.Set, a[2])
	db.dropIfEmpty(a[0])
	if do == nil {
		do = &Obj{T: TSet, Set: map[string]struct{}{}}
		db.Keys[a[1]] = do
	}
	do.Set[a[2]] = struct{}{}
	return IntE(1)
}

func cmdSrandmember(db *DB, _ string, a []string, tm Time) Exp {
	if len(a) < 1 || len(a) > 2 {
		return arityErr()
	}
	hasCount := len(a) == 2
	cnt := int64(1)
	if hasCount {
		v, e, ok := ints(a[1])
		if !ok {
			return e
		}
		cnt = v[0]
	}
	o, wrong := db.typed(a[0], TSet, tm)
	if wrong {
		return WrongType()
	}
	if o == nil {
		if hasCount {
			return ArrE()
		}
		return NilE()
	}
	s := map[string]bool{}
	for k := range o.Set {
		s[k] = true
	}
	if !hasCount {
		return Pred(func(v kit.Value) error {
			if !v.IsString() || !s[v.S] {
				return fmt.Errorf("not a member of the set")
			}
			return nil
		})
	}
	if cnt < -(1<<31) || cnt > (1<<31) {
		return Any("SRANDMEMBER count beyond 2^31")
	}
	return Pred(func(v kit.Value) error {
		ms, ok := v.Strings()
		if !ok {
			return fmt.Errorf("expected an array of strings")
		}
		seen := map[string]bool{}
		for _, m := range ms {
			if !s[m] {
				return fmt.Errorf("%q is not a member", m)
			}
			if cnt >= 0 && seen[m] {
				return fmt.Errorf("member %q repeated for a positive count", m)
			}
			seen[m] = true
		}
		want := cnt
		if cnt >= 0 {
			if int64(len(s)) < want {
				want = int64(len(s))
			}
		} else {
			want = -cnt
		}
		if int64(len(ms)) != want {
			return fmt.Errorf("expected %d elements, got %d", want, len(ms))
		}
		return nil
	})
}

// operands resolves the operand sets; anyMissing reports a missing key; wrong a non-set key.
func (db *DB) operands(keys []string, tm Time) (sets []map[string]struct{}, missingBeforeWrong, wrong bool) {
	missing := false
	for _, k := range keys {
		o := db.lookup(k, tm)
		if o == nil {
			missing = true
			sets = append(sets, map[string]struct{}{})
			continue
		}
		if o.T != TSet {
			if missing {
				missingBeforeWrong = true
			}
			wrong = true
			continue
		}
		sets = append(sets, o.Set)
	}
	return
}

func algebra(op string, sets []map[string]struct{}) map[string]struct{} {
	res := map[string]struct{}{}
	switch op {
	case "SUNION":
		for _, s := range sets {
			for m := range s {
				res[m] = struct{}{}
			}
		}
	case "SINTER":
		for m := range sets[0] {
			all := true
			for _, s := range sets[1:] {
				if _, ok := s[m]; !ok {
					all = false
					break
				}
			}
			if all {
				res[m] = struct{}{}
			}
		}
	case "SDIFF":
		for m := range sets[0] {
			in := false
			for _, s := range sets[1:] {
				if _, ok := s[m]; ok {
					in = true
					break
				}
			}
			if !in {
				res[m] = struct{}{}
			}
		}
	}
	return res
}

func cmdSetAlgebra(db *DB, name string, a []string, tm Time) Exp {
	store := len(name) > 6 && name[len(name)-5:] == "STORE"
	op := name
	keys := a
	dst := ""
	if store {
		op = name[:len(name)-5]
		if len(a) < 2 {
			return arityErr()
		}
		dst, keys = a[0], a[1:]
	} else if len(a) < 1 {
		return arityErr()
	}
	sets, missingBeforeWrong, wrong := db.operands(keys, tm)
	if wrong {
		if op == "SINTER" && missingBeforeWrong {
			return Any("SINTER with a wrong-typed key after a missing one differs between Redis 6 and 7")
		}
		return WrongType()
	}
	res := algebra(op, sets)
	if !store {
		return Unordered(sortedKeys(res))
	}
	if len(res) == 0 {
		db.del(dst)
		return IntE(0)
	}
	db.Keys[dst] = &Obj{T: TSet, Set: res}
	return IntE(int64(len(res)))
}

func cmdSintercard(db *DB, _ string, a []string, tm Time) Exp {
	if len(a) < 2 {
		return arityErr()
	}
	v, e, ok := ints(a[0])
	if !ok {
		return e
	}
	nk := v[0]
	if nk <= 0 {
		return badArg()
	}
	if int64(len(a)) < 1+nk {
		return syntaxErr()
	}
	keys := a[1 : 1+nk]
	rest := a[1+nk:]
	limit := int64(0)
	switch len(rest) {
	case 0:
	case 2:
		if up(rest[0]) != "LIMIT" {
			return syntaxErr()
		}
		l, e, ok := ints(rest[1])
		if !ok {
			return e
		}
		if l[0] < 0 {
			return badArg()
		}
		limit = l[0]
	default:
		return syntaxErr()
	}
	sets, missingBeforeWrong, wrong := db.operands(keys, tm)
	if wrong {
		if missingBeforeWrong {
			return Any("wrong-typed key after a missing one")
		}
		return WrongType()
	}
	n := int64(len(algebra("SINTER", sets)))
	if limit > 0 && n > limit {
		n = limit
	}
	return IntE(n)
}
