package model

import (
	"fmt"

	"verifharness/kit"
)

func init() {
	reg(cmdDel, "DEL", "UNLINK")
	reg(cmdExists, "EXISTS", "TOUCH")
	reg(cmdType, "TYPE")
	reg(cmdRename, "RENAME", "RENAMENX")
	reg(cmdCopy, "COPY")
	reg(cmdKeys, "KEYS")
	reg(cmdRandomkey, "RANDOMKEY")
	reg(cmdDbsize, "DBSIZE")
	reg(cmdExpire, "EXPIRE", "PEXPIRE", "EXPIREAT", "PEXPIREAT")
	reg(cmdPersist, "PERSIST")
	reg(cmdTTL, "TTL", "PTTL", "EXPIRETIME", "PEXPIRETIME")
}

func cmdDel(db *DB, _ string, a []string, tm Time) Exp {
	if len(a) < 1 {
		return arityErr()
	}
	n := int64(0)
	for _, k := range a {
		if db.lookup(k, tm) != nil {
			db.del(k)
			n++
		}
	}
	return IntE(n)
}

func cmdExists(db *DB, _ string, a []string, tm Time) Exp {
	if len(a) < 1 {
		return arityErr()
	}
	n := int64(0)
	for _, k := range a {
		if db.lookup(k, tm) != nil {
			n++
		}
	}
	return IntE(n)
}

func cmdType(db *DB, _ string, a []string, tm Time) Exp {
	if len(a) != 1 {
		return arityErr()
	}
	o := db.lookup(a[0], tm)
	if o == nil {
		return BulkE("none")
	}
	return BulkE(o.T.String())
}

func cmdRename(db *DB, name string, a []string, tm Time) Exp {
	if len(a) != 2 {
		return arityErr()
	}
	o := db.lookup(a[0], tm)
	if o == nil {
		return ErrE("ERR")
	}
	same := a[0] == a[1]
	if name == "RENAMENX" {
		if same || db.lookup(a[1], tm) != nil {
			return IntE(0)
		}
	} else if same {
		return OK()
	}
	db.lookup(a[1], tm)
	db.Keys[a[1]] = o
	delete(db.Keys, a[0])
	if name == "RENAMENX" {
		return IntE(1)
	}
	return OK()
}

func cmdCopy(db *DB, _ string, a []string, tm Time) Exp {
	if len(a) < 2 {
		return arityErr()
	}
	replace := false
	for i := 2; i < len(a); i++ {
		switch up(a[i]) {
		case "REPLACE":
			replace = true
		case "DB":
			return Any("COPY ... DB is documented as unsupported by the emulator")
		default:
			return syntaxErr()
		}
	}
	if a[0] == a[1] {
		return Any("COPY with source = destination")
	}
	o := db.lookup(a[0], tm)
	if o == nil {
		return IntE(0)
	}
	if db.lookup(a[1], tm) != nil && !replace {
		return IntE(0)
	}
	db.Keys[a[1]] = o.clone()
	return IntE(1)
}

func cmdKeys(db *DB, _ string, a []string, tm Time) Exp {
	if len(a) != 1 {
		return arityErr()
	}
	var out []string
	for _, k := range sortedKeys(db.Keys) {
		if db.lookup(k, tm) != nil && GlobMatch(a[0], k) {
			out = append(out, k)
		}
	}
	return Unordered(out)
}

func cmdRandomkey(db *DB, _ string, a []string, tm Time) Exp {
	if len(a) != 0 {
		return arityErr()
	}
	db.Sweep(tm)
	if len(db.Keys) == 0 {
		return NilE()
	}
	live := map[string]bool{}
	for k := range db.Keys {
		live[k] = true
	}
	return Pred(func(v kit.Value) error {
		if !v.IsString() || !live[v.S] {
			return fmt.Errorf("not an existing key")
		}
		return nil
	})
}

func cmdDbsize(db *DB, _ string, a []string, tm Time) Exp {
	if len(a) != 0 {
		return arityErr()
	}
	db.Sweep(tm)
	return IntE(int64(len(db.Keys)))
}

func cmdExpire(db *DB, name string, a []string, tm Time) Exp {
	if len(a) < 2 || len(a) > 3 {
		return arityErr()
	}
	v, e, ok := ints(a[1])
	if !ok {
		return e
	}
	n := v[0]
	opt := ""
	if len(a) == 3 {
		opt = up(a[2])
		switch opt {
		case "NX", "XX", "GT", "LT":
		default:
			return syntaxErr()
		}
	}
	unit := map[string]string{"EXPIRE": "EX", "PEXPIRE": "PX", "EXPIREAT": "EXAT", "PEXPIREAT": "PXAT"}[name]
	// overflow territory: Redis rejects, the exact limits are not modelled
	lim := int64(1) << 52
	if unit == "EX" || unit == "EXAT" {
		lim = int64(1) << 42
	}
	if n > lim || n < -lim {
		return Any("expire value in overflow territory")
	}
	o := db.lookup(a[0], tm)
	if o == nil {
		return IntE(0)
	}
	// candidate deadline interval
	var lo, hi int64
	switch unit {
	case "EX":
		lo, hi = tm.Lo+n*1000-1, tm.Hi+n*1000
	case "PX":
		lo, hi = tm.Lo+n-1, tm.Hi+n
	case "EXAT":
		lo, hi = n*1000, n*1000
	case "PXAT":
		lo, hi = n, n
	}
	switch opt {
	case "NX":
		if o.HasTTL {
			return IntE(0)
		}
	case "XX":
		if !o.HasTTL {
			return IntE(0)
		}
	case "GT":
		if !o.HasTTL {
			return IntE(0)
		}
		if hi <= o.DLo {
			return IntE(0)
		}
		if lo <= o.DHi {
			db.Ambiguous = true
		}
	case "LT":
		if o.HasTTL {
			if lo >= o.DHi {
				return IntE(0)
			}
			if hi >= o.DLo {
				db.Ambiguous = true
			}
		}
	}
	db.applyDeadline(a[0], unit, n, tm)
	return IntE(1)
}

func cmdPersist(db *DB, _ string, a []string, tm Time) Exp {
	if len(a) != 1 {
		return arityErr()
	}
	o := db.lookup(a[0], tm)
	if o == nil || !o.HasTTL {
		return IntE(0)
	}
	o.HasTTL = false
	return IntE(1)
}

func cmdTTL(db *DB, name string, a []string, tm Time) Exp {
	if len(a) != 1 {
		return arityErr()
	}
	o := db.lookup(a[0], tm)
	if o == nil {
		return IntE(-2)
	}
	if !o.HasTTL {
		return IntE(-1)
	}
	dlo, dhi := o.DLo, o.DHi
	return Pred(func(v kit.Value) error {
		if v.K != kit.KInt {
			return fmt.Errorf("expected an integer")
		}
		var lo, hi int64
		switch name {
		case "PEXPIRETIME":
			lo, hi = dlo, dhi
		case "EXPIRETIME":
			// Redis rounds (ms+500)/1000; accept floor..ceil of the interval
			lo, hi = dlo/1000, (dhi+999)/1000
		case "PTTL":
			lo, hi = dlo-tm.Hi-1, dhi-tm.Lo+1
		case "TTL":
			lo, hi = (dlo-tm.Hi)/1000-1, (dhi-tm.Lo+999)/1000+1
		}
		if v.I < lo || v.I > hi {
			return fmt.Errorf("%s=%d outside [%d,%d] implied by the deadline that was set", name, v.I, lo, hi)
		}
		return nil
	})
}

// GlobMatch is a line-by-line port of Redis 7.0 stringmatchlen (case sensitive) over raw bytes, with
// the KEYS shortcut that the pattern "*" matches everything (including the empty key name).
func GlobMatch(pattern, s string) bool {
	if pattern == "*" {
		return true
	}
	return globMatch([]byte(pattern), []byte(s))
}

func globMatch(p, s []byte) bool {
	for len(p) > 0 && len(s) > 0 {
		switch p[0] {
		case '*':
			for len(p) > 1 && p[1] == '*' {
				p = p[1:]
			}
			if len(p) == 1 {
				return true
			}
			for len(s) > 0 {
				if globMatch(p[1:], s) {
					return true
				}
				s = s[1:]
			}
			return false
		case '?':
			s = s[1:]
		case '[':
			p = p[1:]
			not := len(p) > 0 && p[0] == '^'
			if not {
				p = p[1:]
			}
			match := false
			backedUp := false
			for {
				if len(p) >= 2 && p[0] == '\\' {
					p = p[1:]
					if p[0] == s[0] {
						match = true
					}
				} else if len(p) == 0 {
					backedUp = true // Redis: pattern--; patternLen++
					break
				} else if p[0] == ']' {
					break
				} else if len(p) >= 3 && p[1] == '-' {
					lo, hi := p[0], p[2]
					if lo > hi {
						lo, hi = hi, lo
					}
					p = p[2:]
					if s[0] >= lo && s[0] <= hi {
						match = true
					}
				} else if p[0] == s[0] {
					match = true
				}
				p = p[1:]
			}
			if not {
				match = !match
			}
			if !match {
				return false
			}
			s = s[1:]
			if backedUp {
				// the pattern was exhausted inside the class: after the common "pattern++" below it is empty
				return len(s) == 0
			}
		case '\\':
			if len(p) >= 2 {
				p = p[1:]
			}
			fallthrough
		default:
			if p[0] != s[0] {
				return false
			}
			s = s[1:]
		}
		p = p[1:]
		if len(s) == 0 {
			for len(p) > 0 && p[0] == '*' {
				p = p[1:]
			}
			break
		}
	}
	return len(p) == 0 && len(s) == 0
}
