package model

import (
	"fmt"
	"sort"
	"strconv"
	"strings"

	"verifharness/kit"
)

func init() { reg(cmdSort, "SORT") }

// cmdSort models SORT key [BY pattern] [LIMIT offset count] [GET pattern ...] [ASC|DESC] [ALPHA] [STORE dst]
// on lists and sets. Orders that Redis leaves to an unstable qsort, or fixes only through an
// undocumented tie-break, are checked by a validity predicate (permutation + sortedness) or left open.
func cmdSort(db *DB, _ string, a []string, tm Time) Exp {
	if len(a) < 1 {
		return arityErr()
	}
	key := a[0]
	by, hasBy := "", false
	var gets []string
	desc, alpha := false, false
	hasLimit := false
	var off, cnt int64
	store := ""
	hasStore := false
	for i := 1; i < len(a); i++ {
		switch up(a[i]) {
		case "ASC":
			desc = false
		case "DESC":
			desc = true
		case "ALPHA":
			alpha = true
		case "LIMIT":
			if i+2 >= len(a) {
				return syntaxErr()
			}
			v, e, ok := ints(a[i+1], a[i+2])
			if !ok {
				return e
			}
			hasLimit, off, cnt = true, v[0], v[1]
			i += 2
		case "BY":
			if i+1 >= len(a) {
				return syntaxErr()
			}
			by, hasBy = a[i+1], true
			i++
		case "GET":
			if i+1 >= len(a) {
				return syntaxErr()
			}
			gets = append(gets, a[i+1])
			i++
		case "STORE":
			if i+1 >= len(a) {
				return syntaxErr()
			}
			store, hasStore = a[i+1], true
			i++
		default:
			return syntaxErr()
		}
	}
	if strings.Contains(by, "->") {
		return Any("hash field patterns are not modelled")
	}
	for _, g := range gets {
		if strings.Contains(g, "->") {
			return Any("hash field patterns are not modelled")
		}
	}
	o := db.lookup(key, tm)
	if o != nil && o.T != TList && o.T != TSet {
		return WrongType()
	}
	var elems []string
	isSet := false
	if o != nil {
		if o.T == TList {
			elems = append(elems, o.List...)
		} else {
			isSet = true
			elems = sortedKeys(o.Set)
		}
	}
	dontSort := hasBy && !strings.Contains(by, "*")
	if dontSort && isSet {
		return Any("SORT BY nosort on a set has no defined order")
	}

	type item struct {
		e      string
		w      float64
		ws     string
		hasW   bool
		origIx int
	}
	items := make([]item, len(elems))
	ties := false
	for i, e := range elems {
		it := item{e: e, origIx: i}
		if !dontSort {
			src := e
			it.hasW = true
			if hasBy {
				wk := strings.Replace(by, "*", e, 1)
				wo := db.lookup(wk, tm)
				if wo == nil || wo.T != TString {
					it.hasW = false
					if alpha {
						return Any("SORT BY ... ALPHA with a missing weight key")
					}
				} else {
					src = wo.Str
				}
			}
			if alpha {
				it.ws = src
			} else if it.hasW {
				if strings.TrimSpace(src) != src || src == "" || strings.ContainsAny(src, "xXpP_") {
					return Any("strtod and ParseFloat disagree on empty strings, blanks, hex floats")
				}
				f, err := strconv.ParseFloat(src, 64)
				if err != nil {
					return ErrE("ERR")
				}
				if f != f {
					return Any("NaN weight")
				}
				it.w = f
			}
		}
		items[i] = it
	}
	less := func(x, y item) bool {
		if alpha {
			return x.ws < y.ws
		}
		return x.w < y.w
	}
	equalW := func(x, y item) bool { return !less(x, y) && !less(y, x) }
	if !dontSort {
		sort.SliceStable(items, func(i, j int) bool {
			if desc {
				return less(items[j], items[i])
			}
			return less(items[i], items[j])
		})
		for i := 1; i < len(items); i++ {
			if equalW(items[i-1], items[i]) && items[i-1].e != items[i].e {
				ties = true
			}
		}
	}
	if ties && hasLimit {
		return Any("LIMIT over elements with equal weights: which ones are returned is unspecified")
	}
	// LIMIT
	n := int64(len(items))
	start, end := int64(0), n-1
	if hasLimit {
		if off < 0 {
			start = 0
		} else {
			start = off
		}
		if cnt < 0 {
			end = n - 1
		} else {
			end = start + cnt - 1
			if end < start-1 { // overflow
				end = n - 1
			}
		}
		if start >= n {
			start, end = n-1, n-2
		}
		if end >= n {
			end = n - 1
		}
	}
	var sel []item
	if n > 0 && end >= start {
		sel = items[start : end+1]
	}
	// output projection
	project := func(e string) []kit.Value {
		if len(gets) == 0 {
			return []kit.Value{kit.Bulk(e)}
		}
		out := make([]kit.Value, 0, len(gets))
		for _, g := range gets {
			switch {
			case g == "#":
				out = append(out, kit.Bulk(e))
			case !strings.Contains(g, "*"):
				out = append(out, kit.Nil())
			default:
				vo := db.lookup(strings.Replace(g, "*", e, 1), tm)
				if vo == nil || vo.T != TString {
					out = append(out, kit.Nil())
				} else {
					out = append(out, kit.Bulk(vo.Str))
				}
			}
		}
		return out
	}
	width := 1
	if len(gets) > 0 {
		width = len(gets)
	}
	var flat []kit.Value
	for _, it := range sel {
		flat = append(flat, project(it.e)...)
	}
	if hasStore {
		if ties {
			return Any("SORT ... STORE over elements with equal weights: stored order unspecified")
		}
		if len(flat) == 0 {
			db.del(store)
			return IntE(0)
		}
		l := make([]string, len(flat))
		for i, v := range flat {
			l[i] = v.S // nil -> ""
		}
		db.Keys[store] = &Obj{T: TList, List: l}
		return IntE(int64(len(l)))
	}
	if !ties {
		return Val(kit.Arr(flat...))
	}
	// ties: any order among equal weights is accepted; check permutation + group-wise equality
	want := kit.Arr(flat...)
	groups := [][]string{} // per weight group, the multiset of projected rows (as keys)
	for i := 0; i < len(sel); {
		j := i
		var g []string
		for j < len(sel) && equalW(sel[i], sel[j]) {
			g = append(g, kit.Arr(project(sel[j].e)...).Key())
			j++
		}
		sort.Strings(g)
		groups = append(groups, g)
		i = j
	}
	return Pred(func(v kit.Value) error {
		c := v.Canon()
		if c.K != kit.KArr || len(c.A) != len(want.A) {
			return fmt.Errorf("expected %d elements", len(want.A))
		}
		pos := 0
		for _, g := range groups {
			var got []string
			for range g {
				got = append(got, kit.Arr(c.A[pos:pos+width]...).Key())
				pos += width
			}
			sort.Strings(got)
			for i := range g {
				if g[i] != got[i] {
					return fmt.Errorf("elements of one weight group differ (expected some order of %s)", want)
				}
			}
		}
		return nil
	})
}
