package model

import (
	"verifharness/kit"
)

func init() {
	reg(cmdPush, "LPUSH", "RPUSH", "LPUSHX", "RPUSHX")
	reg(cmdPop, "LPOP", "RPOP")
	reg(cmdLlen, "LLEN")
	reg(cmdLindex, "LINDEX")
	reg(cmdLrange, "LRANGE")
	reg(cmdLset, "LSET")
	reg(cmdLinsert, "LINSERT")
	reg(cmdLrem, "LREM")
	reg(cmdLtrim, "LTRIM")
	reg(cmdLpos, "LPOS")
	reg(cmdLmove, "LMOVE", "RPOPLPUSH")
	reg(cmdLmpop, "LMPOP")
}

func ints(ss ...string) ([]int64, Exp, bool) {
	out := make([]int64, len(ss))
	for i, s := range ss {
		v, ok := parseInt(s)
		if !ok {
			if looseInt(s) {
				return nil, Any("non-canonical integer"), false
			}
			return nil, badArg(), false
		}
		out[i] = v
	}
	return out, Exp{}, true
}

func cmdPush(db *DB, name string, a []string, tm Time) Exp {
	if len(a) < 2 {
		return arityErr()
	}
	o, wrong := db.typed(a[0], TList, tm)
	if wrong {
		return WrongType()
	}
	x := name == "LPUSHX" || name == "RPUSHX"
	if o == nil {
		if x {
			return IntE(0)
		}
		o = &Obj{T: TList}
		db.Keys[a[0]] = o
	}
	for _, e := range a[1:] {
		if name[0] == 'L' {
			o.List = append([]string{e}, o.List...)
		} else {
			o.List = append(o.List, e)
		}
	}
	return IntE(int64(len(o.List)))
}

func cmdPop(db *DB, name string, a []string, tm Time) Exp {
	if len(a) < 1 || len(a) > 2 {
		return arityErr()
	}
	hasCount := len(a) == 2
	cnt := int64(1)
	if hasCount {
		v, e, ok := ints(a[1])
		if !ok {
			return e
		}
		if v[0] < 0 {
			return ErrE("ERR")
		}
		cnt = v[0]
	}
	o, wrong := db.typed(a[0], TList, tm)
	if wrong {
		return WrongType()
	}
	if o == nil {
		return NilE()
	}
	if hasCount && cnt == 0 {
		return Any("LPOP/RPOP with count 0 differs between Redis versions")
	}
	var out []string
	for ; cnt > 0 && len(o.List) > 0; cnt-- {
		if name == "LPOP" {
			out = append(out, o.List[0])
			o.List = o.List[1:]
		} else {
			out = append(out, o.List[len(o.List)-1])
			o.List = o.List[:len(o.List)-1]
		}
	}
	db.dropIfEmpty(a[0])
	if !hasCount {
		return BulkE(out[0])
	}
	return ArrE(out...)
}

func cmdLlen(db *DB, _ string, a []string, tm Time) Exp {
	if len(a) != 1 {
		return arityErr()
	}
	o, wrong := db.typed(a[0], TList, tm)
	if wrong {
		return WrongType()
	}
	if o == nil {
		return IntE(0)
	}
	return IntE(int64(len(o.List)))
}

func cmdLindex(db *DB, _ string, a []string, tm Time) Exp {
	if len(a) != 2 {
		return arityErr()
	}
	v, e, ok := ints(a[1])
	if !ok {
		return e
	}
	o, wrong := db.typed(a[0], TList, tm)
	if wrong {
		return WrongType()
	}
	if o == nil {
		return NilE()
	}
	i, n := v[0], int64(len(o.List))
	if i < 0 {
		i += n
	}
	if i < 0 || i >= n {
		return NilE()
	}
	return BulkE(o.List[i])
}

// clampRange converts Redis start/stop (inclusive, negative from the end) into a slice range.
func clampRange(start, stop, n int64) (int64, int64, bool) {
	if start < 0 {
		start += n
	}
	if stop < 0 {
		stop += n
	}
	if start < 0 {
		start = 0
	}
	if start > stop || start >= n {
		return 0, 0, false
	}
	if stop >= n {
		stop = n - 1
	}
	return start, stop + 1, true
}

func cmdLrange(db *DB, _ string, a []string, tm Time) Exp {
	if len(a) != 3 {
		return arityErr()
	}
	v, e, ok := ints(a[1], a[2])
	if !ok {
		return e
	}
	o, wrong := db.typed(a[0], TList, tm)
	if wrong {
		return WrongType()
	}
	if o == nil {
		return ArrE()
	}
	lo, hi, ok := clampRange(v[0], v[1], int64(len(o.List)))
	if !ok {
		return ArrE()
	}
	return ArrE(o.List[lo:hi]...)
}

func cmdLset(db *DB, _ string, a []string, tm Time) Exp {
	if len(a) != 3 {
		return arityErr()
	}
	v, e, ok := ints(a[1])
	if !ok {
		return e
	}
	o, wrong := db.typed(a[0], TList, tm)
	if wrong {
		return WrongType()
	}
	if o == nil {
		return ErrE("ERR")
	}
	i, n := v[0], int64(len(o.List))
	if i < 0 {
		i += n
	}
	if i < 0 || i >= n {
		return ErrE("ERR")
	}
	o.List[i] = a[2]
	return OK()
}

func cmdLinsert(db *DB, _ string, a []string, tm Time) Exp {
	if len(a) != 4 {
		return arityErr()
	}
	w := up(a[1])
	if w != "BEFORE" && w != "AFTER" {
		return syntaxErr()
	}
	o, wrong := db.typed(a[0], TList, tm)
	if wrong {
		return WrongType()
	}
	if o == nil {
		return IntE(0)
	}
	for i, e := range o.List {
		if e == a[2] {
			at := i
			if w == "AFTER" {
				at = i + 1
			}
			nl := append([]string{}, o.List[:at]...)
			nl = append(nl, a[3])
			nl = append(nl, o.List[at:]...)
			o.List = nl
			return IntE(int64(len(o.List)))
		}
	}
	return IntE(-1)
}

func cmdLrem(db *DB, _ string, a []string, tm Time) Exp {
	if len(a) != 3 {
		return arityErr()
	}
	v, e, ok := ints(a[1])
	if !ok {
		return e
	}
	o, wrong := db.typed(a[0], TList, tm)
	if wrong {
		return WrongType()
	}
	if o == nil {
		return IntE(0)
	}
	cnt := v[0]
	if cnt == -cnt && cnt != 0 {
		return Any("LREM count -2^63: negation overflows (undefined behaviour in Redis' C code)")
	}
	removed := int64(0)
	var out []string
	if cnt >= 0 {
		for _, e := range o.List {
			if e == a[2] && (cnt == 0 || removed < cnt) {
				removed++
				continue
			}
			out = append(out, e)
		}
	} else {
		lim := -cnt
		if cnt == -cnt { // MinInt64
			lim = 1<<63 - 1
		}
		for i := len(o.List) - 1; i >= 0; i-- {
			e := o.List[i]
			if e == a[2] && removed < lim {
				removed++
				continue
			}
			out = append([]string{e}, out...)
		}
	}
	o.List = out
	db.dropIfEmpty(a[0])
	return IntE(removed)
}

func cmdLtrim(db *DB, _ string, a []string, tm Time) Exp {
	if len(a) != 3 {
		return arityErr()
	}
	v, e, ok := ints(a[1], a[2])
	if !ok {
		return e
	}
	o, wrong := db.typed(a[0], TList, tm)
	if wrong {
		return WrongType()
	}
	if o == nil {
		return OK()
	}
	lo, hi, ok := clampRange(v[0], v[1], int64(len(o.List)))
	if !ok {
		o.List = nil
	} else {
		o.List = append([]string{}, o.List[lo:hi]...)
	}
	db.dropIfEmpty(a[0])
	return OK()
}

func cmdLpos(db *DB, _ string, a []string, tm Time) Exp {
	if len(a) < 2 {
		return arityErr()
	}
	rank, count, maxlen := int64(1), int64(-1), int64(0)
	if (len(a)-2)%2 != 0 {
		return syntaxErr()
	}
	for i := 2; i < len(a); i += 2 {
		v, e, ok := ints(a[i+1])
		if !ok {
			return e
		}
		switch up(a[i]) {
		case "RANK":
			if v[0] == 0 || v[0] == -v[0] {
				return ErrE("ERR")
			}
			rank = v[0]
		case "COUNT":
			if v[0] < 0 {
				return ErrE("ERR")
			}
			count = v[0]
		case "MAXLEN":
			if v[0] < 0 {
				return ErrE("ERR")
			}
			maxlen = v[0]
		default:
			return syntaxErr()
		}
	}
	o, wrong := db.typed(a[0], TList, tm)
	if wrong {
		return WrongType()
	}
	var res []kit.Value
	if o != nil {
		n := int64(len(o.List))
		want := count
		if count == -1 {
			want = 1
		}
		skip := rank
		if skip < 0 {
			skip = -skip
		}
		skip--
		for step := int64(0); step < n; step++ {
			if maxlen != 0 && step >= maxlen {
				break
			}
			idx := step
			if rank < 0 {
				idx = n - 1 - step
			}
			if o.List[idx] == a[1] {
				if skip > 0 {
					skip--
					continue
				}
				res = append(res, kit.Int(idx))
				if want != 0 && int64(len(res)) >= want {
					break
				}
			}
		}
	}
	if count == -1 {
		if len(res) == 0 {
			return NilE()
		}
		return Val(res[0])
	}
	return Val(kit.Arr(res...))
}

func cmdLmove(db *DB, name string, a []string, tm Time) Exp {
	var src, dst string
	srcLeft, dstLeft := false, true
	if name == "RPOPLPUSH" {
		if len(a) != 2 {
			return arityErr()
		}
		src, dst = a[0], a[1]
	} else {
		if len(a) != 4 {
			return arityErr()
		}
		src, dst = a[0], a[1]
		switch up(a[2]) {
		case "LEFT":
			srcLeft = true
		case "RIGHT":
			srcLeft = false
		default:
			return syntaxErr()
		}
		switch up(a[3]) {
		case "LEFT":
			dstLeft = true
		case "RIGHT":
			dstLeft = false
		default:
			return syntaxErr()
		}
	}
	so, wrong := db.typed(src, TList, tm)
	if wrong {
		return WrongType()
	}
	if so == nil {
		return NilE()
	}
	do, wrong := db.typed(dst, TList, tm)
	if wrong {
		return WrongType()
	}
	var e string
	if srcLeft {
		e = so.List[0]
		so.List = so.List[1:]
	} else {
		e = so.List[len(so.List)-1]
		so.List = so.List[:len(so.List)-1]
	}
	if do == nil {
		do = &Obj{T: TList}
		db.Keys[dst] = do
	}
	if src == dst {
		do = so
	}
	if dstLeft {
		do.List = append([]string{e}, do.List...)
	} else {
		do.List = append(do.List, e)
	}
	if src != dst {
		db.dropIfEmpty(src)
	}
	return BulkE(e)
}

func cmdLmpop(db *DB, _ string, a []string, tm Time) Exp {
	if len(a) < 3 {
		return arityErr()
	}
	v, e, ok := ints(a[0])
	if !ok {
		return e
	}
	nk := v[0]
	if nk <= 0 {
		return ErrE("ERR")
	}
	if int64(len(a)) < 1+nk+1 {
		return syntaxErr()
	}
	keys := a[1 : 1+nk]
	rest := a[1+nk:]
	var left bool
	switch up(rest[0]) {
	case "LEFT":
		left = true
	case "RIGHT":
	default:
		return syntaxErr()
	}
	cnt := int64(1)
	switch len(rest) {
	case 1:
	case 3:
		if up(rest[1]) != "COUNT" {
			return syntaxErr()
		}
		c, e, ok := ints(rest[2])
		if !ok {
			return e
		}
		if c[0] <= 0 {
			return ErrE("ERR")
		}
		cnt = c[0]
	default:
		return syntaxErr()
	}
	for _, k := range keys {
		o, wrong := db.typed(k, TList, tm)
		if wrong {
			return WrongType()
		}
		if o == nil {
			continue
		}
		var out []string
		for ; cnt > 0 && len(o.List) > 0; cnt-- {
			if left {
				out = append(out, o.List[0])
				o.List = o.List[1:]
			} else {
				out = append(out, o.List[len(o.List)-1])
				o.List = o.List[:len(o.List)-1]
			}
		}
		db.dropIfEmpty(k)
		return Val(kit.Arr(kit.Bulk(k), kit.Bulks(out...)))
	}
	return NilE()
}
