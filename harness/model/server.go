package model

import (
	"fmt"
	"strconv"

	"verifharness/kit"
)

// Server models the sixteen databases and the per-connection session state
// (selected database, protocol, name, MULTI queue, watched keys).
type Server struct {
	DBs [16]*DB
}

func NewServer() *Server {
	s := &Server{}
	for i := range s.DBs {
		s.DBs[i] = NewDB()
	}
	return s
}

type watchRef struct {
	db  int
	key string
}

// watch dirtiness levels
const (
	wClean    = 0
	wDontCare = 1 // a successful write left value and deadline identical: Redis signals some of these
	wMust     = 2
)

// Session is the model of one connection.
type Session struct {
	ID      int
	DB      int
	Proto   int
	Name    string
	InMulti bool
	Queue   [][]string
	Aborted bool // a command was rejected while queueing: EXEC must reply EXECABORT
	Watches map[watchRef]int
	// MissingAtWatch records the watched keys that did not exist when they were first watched
	MissingAtWatch map[watchRef]bool
}

func NewSession(id int) *Session {
	return &Session{ID: id, Proto: 2, Watches: map[watchRef]int{}, MissingAtWatch: map[watchRef]bool{}}
}

// Exp kinds for nested expectations
const (
	EExec   ExpKind = 100 // array whose elements are matched by Sub
	EEither ExpKind = 101 // any of Sub
)

// arity table (Redis convention: positive = exact, negative = minimum), only for commands the
// generators queue inside MULTI.
var arity = map[string]int{
	"GET": 2, "SET": -3, "SETNX": 3, "APPEND": 3, "INCR": 2, "DECR": 2, "INCRBY": 3, "DECRBY": 3, "STRLEN": 2, "GETSET": 3, "GETDEL": 2,
	"MGET": -2, "MSET": -3, "MSETNX": -3, "DEL": -2, "UNLINK": -2, "EXISTS": -2, "TYPE": 2, "RENAME": 3, "RENAMENX": 3,
	"LPUSH": -3, "RPUSH": -3, "LPOP": -2, "RPOP": -2, "LLEN": 2, "LRANGE": 4, "LINDEX": 3, "LSET": 4, "LREM": 4, "LTRIM": 4, "LMOVE": 5, "RPOPLPUSH": 3,
	"HSET": -4, "HGET": 3, "HDEL": -3, "HLEN": 2, "HGETALL": 2, "HINCRBY": 4, "HEXISTS": 3,
	"SADD": -3, "SREM": -3, "SCARD": 2, "SISMEMBER": 3, "SMEMBERS": 2, "SMOVE": 4, "SINTERSTORE": -3, "SUNIONSTORE": -3, "SDIFFSTORE": -3,
	"EXPIRE": -3, "PEXPIRE": -3, "PEXPIREAT": -3, "EXPIREAT": -3, "PERSIST": 2, "TTL": 2, "PTTL": 2, "PEXPIRETIME": 2,
	"PING": -1, "ECHO": 2, "DBSIZE": 1, "SELECT": 2, "FLUSHDB": -1, "FLUSHALL": -1,
	"BLPOP": -3, "BRPOP": -3, "BLMOVE": 6, "BRPOPLPUSH": 4, "BLMPOP": -5, "COPY": -3, "SETRANGE": 4, "GETRANGE": 4, "LPUSHX": -3, "RPUSHX": -3,
	"HSETNX": 4, "LINSERT": 5, "SETEX": 4, "PSETEX": 4, "GETEX": -2, "SORT": -2, "LMPOP": -4, "BITOP": -4, "SETBIT": 4, "HMSET": -4, "HINCRBYFLOAT": 4, "INCRBYFLOAT": 3,
}

// QueueRejected reports whether Redis rejects the command while queueing (unknown name or bad arity).
// known=false means the model has no arity for it (generators must not queue such commands).
// subArity: sub-commands of the container commands (arity counts the container and the sub-command name).
var subArity = map[string]map[string]int{
	"CLIENT":  {"ID": 2, "GETNAME": 2, "SETNAME": 3, "INFO": 2, "LIST": -2, "KILL": -3, "UNBLOCK": -3, "NO-EVICT": 3, "SETINFO": 4, "HELP": 2},
	"COMMAND": {"COUNT": 2, "LIST": -2, "DOCS": -2, "INFO": -2, "GETKEYS": -4, "GETKEYSANDFLAGS": -4, "HELP": 2},
}

func QueueRejected(argv []string) (rejected, known bool) {
	name := up(argv[0])
	if subs, ok := subArity[name]; ok && len(argv) >= 2 {
		a, ok := subs[up(argv[1])]
		if !ok {
			return true, true // unknown sub-command: refused while queueing, like an unknown command
		}
		if (a > 0 && len(argv) != a) || (a < 0 && len(argv) < -a) {
			return true, true
		}
		return false, false // a valid shape: what it does is not modelled here
	}
	a, ok := arity[name]
	if !ok {
		if _, modelled := commands[name]; modelled || sessionCmd[name] {
			return false, false
		}
		return true, true // unknown command
	}
	if a > 0 && len(argv) != a {
		return true, true
	}
	if a < 0 && len(argv) < -a {
		return true, true
	}
	return false, true
}

var sessionCmd = map[string]bool{"MULTI": true, "EXEC": true, "DISCARD": true, "WATCH": true, "UNWATCH": true, "SELECT": true,
	"FLUSHDB": true, "FLUSHALL": true, "PING": true, "ECHO": true, "HELLO": true, "CLIENT": true,
	"BLPOP": true, "BRPOP": true, "BLMOVE": true, "BRPOPLPUSH": true, "BLMPOP": true}

// readOnly commands never count as modifications.
var readOnly = map[string]bool{"GET": true, "STRLEN": true, "GETRANGE": true, "SUBSTR": true, "MGET": true, "LCS": true, "LLEN": true, "LINDEX": true,
	"LRANGE": true, "LPOS": true, "HGET": true, "HMGET": true, "HGETALL": true, "HKEYS": true, "HVALS": true, "HLEN": true, "HEXISTS": true,
	"HSTRLEN": true, "HRANDFIELD": true, "SCARD": true, "SISMEMBER": true, "SMISMEMBER": true, "SMEMBERS": true, "SRANDMEMBER": true,
	"SINTER": true, "SUNION": true, "SDIFF": true, "SINTERCARD": true, "EXISTS": true, "TOUCH": true, "TYPE": true, "KEYS": true, "RANDOMKEY": true,
	"DBSIZE": true, "TTL": true, "PTTL": true, "EXPIRETIME": true, "PEXPIRETIME": true, "GETBIT": true, "BITCOUNT": true, "BITPOS": true,
	"BITFIELD_RO": true, "PING": true, "ECHO": true}

// nothingDone: commands whose integer reply <= 0 / nil reply says the key was not touched.
var nothingDone = map[string]bool{"SADD": true, "SREM": true, "HDEL": true, "LREM": true, "EXPIRE": true, "PEXPIRE": true, "EXPIREAT": true,
	"PEXPIREAT": true, "PERSIST": true, "SETNX": true, "MSETNX": true, "SMOVE": true, "HSETNX": true, "LPUSHX": true, "RPUSHX": true,
	"LINSERT": true, "SET": true, "LPOP": true, "RPOP": true, "LMOVE": true, "RPOPLPUSH": true, "LMPOP": true, "DEL": true, "UNLINK": true,
	"GETDEL": true, "COPY": true, "RENAMENX": true, "GETEX": true, "BLPOP": true, "BRPOP": true, "BLMOVE": true, "BRPOPLPUSH": true, "BLMPOP": true}

func objEqual(a, b *Obj) bool {
	if a == nil || b == nil {
		return a == b
	}
	if a.T != b.T || a.HasTTL != b.HasTTL || (a.HasTTL && (a.DLo != b.DLo || a.DHi != b.DHi)) {
		return false
	}
	switch a.T {
	case TString:
		return a.Str == b.Str
	case TList:
		if len(a.List) != len(b.List) {
			return false
		}
		for i := range a.List {
			if a.List[i] != b.List[i] {
				return false
			}
		}
	case THash:
		if len(a.Hash) != len(b.Hash) {
			return false
		}
		for k, v := range a.Hash {
			if w, ok := b.Hash[k]; !ok || v != w {
				return false
			}
		}
	case TSet:
		if len(a.Set) != len(b.Set) {
			return false
		}
		for k := range a.Set {
			if _, ok := b.Set[k]; !ok {
				return false
			}
		}
	}
	return true
}

type snap struct {
	ptr  *Obj
	copy *Obj
}

// runData executes a data command in database dbi and updates the watch state of every session.
func (s *Server) runData(all []*Session, dbi int, argv []string, tm Time) Exp {
	db := s.DBs[dbi]
	// snapshot every watched key of this database
	before := map[string]snap{}
	for _, se := range all {
		for w := range se.Watches {
			if w.db == dbi {
				if _, ok := before[w.key]; !ok {
					o := db.lookup(w.key, tm)
					sn := snap{ptr: o}
					if o != nil {
						sn.copy = o.clone()
					}
					before[w.key] = sn
				}
			}
		}
	}
	exp := db.Exec(argv, tm)
	name := up(argv[0])
	for key, b := range before {
		after := db.Keys[key]
		level := wClean
		switch {
		case after != b.ptr:
			level = wMust
		case after != nil && !objEqual(after, b.copy):
			level = wMust
		case readOnly[name] || exp.IsErr():
			level = wClean
		default:
			// state identical after a non-failing, non-read command
			touched := false
			for _, a := range argv[1:] {
				if a == key {
					touched = true
				}
			}
			if !touched {
				level = wClean
			} else if nothingDone[name] && exp.Kind == EVal && (exp.V.K == kit.KNil || (exp.V.K == kit.KInt && exp.V.I <= 0)) {
				level = wClean
			} else {
				level = wDontCare
			}
		}
		if level != wClean {
			for _, se := range all {
				w := watchRef{dbi, key}
				if cur, ok := se.Watches[w]; ok && cur < level {
					se.Watches[w] = level
				}
			}
		}
	}
	return exp
}

func (s *Server) flush(all []*Session, dbi int) {
	for k := range s.DBs[dbi].Keys {
		for _, se := range all {
			w := watchRef{dbi, k}
			if _, ok := se.Watches[w]; ok {
				se.Watches[w] = wMust
			}
		}
	}
	s.DBs[dbi] = NewDB()
}

// blockingAsNonBlocking rewrites a blocking list command into its non-blocking form.
func blockingAsNonBlocking(argv []string) ([][]string, bool) {
	name := up(argv[0])
	switch name {
	case "BLPOP", "BRPOP":
		if len(argv) < 3 {
			return nil, false
		}
		var out [][]string
		for _, k := range argv[1 : len(argv)-1] {
			out = append(out, []string{name[1:], k})
		}
		return out, true
	case "BLMOVE":
		if len(argv) != 6 {
			return nil, false
		}
		return [][]string{{"LMOVE", argv[1], argv[2], argv[3], argv[4]}}, true
	case "BRPOPLPUSH":
		if len(argv) != 4 {
			return nil, false
		}
		return [][]string{{"RPOPLPUSH", argv[1], argv[2]}}, true
	case "BLMPOP":
		if len(argv) < 5 {
			return nil, false
		}
		return [][]string{append([]string{"LMPOP"}, argv[2:]...)}, true
	}
	return nil, false
}

// execOne runs one command outside of queueing (directly or from EXEC).
func (s *Server) execOne(all []*Session, se *Session, argv []string, tm Time, inExec bool) Exp {
	name := up(argv[0])
	switch name {
	case "PING":
		if len(argv) == 1 {
			return Val(kit.Simple("PONG"))
		}
		if len(argv) == 2 {
			return BulkE(argv[1])
		}
		return arityErr()
	case "ECHO":
		if len(argv) != 2 {
			return arityErr()
		}
		return BulkE(argv[1])
	case "CLIENT":
		if len(argv) >= 2 {
			switch up(argv[1]) {
			case "SETNAME":
				if len(argv) != 3 {
					return arityErr()
				}
				for _, ch := range []byte(argv[2]) {
					if ch < '!' || ch > '~' {
						return Any("client names with blanks or control characters")
					}
				}
				se.Name = argv[2]
				return OK()
			case "GETNAME":
				if len(argv) != 2 {
					return arityErr()
				}
				if se.Name == "" {
					return NilE()
				}
				return BulkE(se.Name)
			}
		}
		return Any("CLIENT subcommand not modelled")
	case "HELLO":
		if len(argv) == 1 {
			return helloExp(se.Proto)
		}
		if len(argv) == 2 && (argv[1] == "2" || argv[1] == "3") {
			se.Proto = int(argv[1][0] - '0')
			return helloExp(se.Proto)
		}
		return Any("HELLO with other arguments is checked by C15")
	case "SELECT":
		if len(argv) != 2 {
			return arityErr()
		}
		n, ok := parseInt(argv[1])
		if !ok {
			if looseInt(argv[1]) {
				return Any("non-canonical integer")
			}
			return ErrE("ERR")
		}
		if n < 0 || n > 15 {
			return ErrE("ERR")
		}
		se.DB = int(n)
		return OK()
	case "FLUSHDB":
		if len(argv) > 2 {
			return Any("FLUSHDB options")
		}
		if len(argv) == 2 && up(argv[1]) != "ASYNC" && up(argv[1]) != "SYNC" {
			return ErrE("ERR")
		}
		s.flush(all, se.DB)
		return OK()
	case "FLUSHALL":
		if len(argv) > 2 {
			return Any("FLUSHALL options")
		}
		if len(argv) == 2 && up(argv[1]) != "ASYNC" && up(argv[1]) != "SYNC" {
			return ErrE("ERR")
		}
		for i := range s.DBs {
			s.flush(all, i)
		}
		return OK()
	case "BLPOP", "BRPOP", "BLMOVE", "BRPOPLPUSH", "BLMPOP":
		// timeout argument must be a non-negative number
		var to string
		switch name {
		case "BLPOP", "BRPOP", "BRPOPLPUSH", "BLMOVE":
			to = argv[len(argv)-1]
		default:
			to = argv[1]
		}
		if f, err := strconv.ParseFloat(to, 64); err != nil || f < 0 {
			return badArg()
		}
		forms, ok := blockingAsNonBlocking(argv)
		if !ok {
			return arityErr()
		}
		for _, f := range forms {
			probe := s.DBs[se.DB].Clone().Exec(f, tm)
			if probe.Kind == EVal && probe.V.K == kit.KNil {
				continue // this key has nothing: next key
			}
			e := s.runData(all, se.DB, f, tm)
			if (name == "BLPOP" || name == "BRPOP") && e.Kind == EVal && e.V.K == kit.KBulk {
				return Val(kit.Arr(kit.Bulk(f[1]), e.V))
			}
			return e
		}
		if inExec {
			return NilE()
		}
		return Any("would block")
	}
	if _, ok := commands[name]; !ok {
		return Exp{Kind: EAny, Why: "command not modelled: " + name}
	}
	return s.runData(all, se.DB, argv, tm)
}

// Exec applies one command sent on session se. all lists every open session (watch bookkeeping).
func (s *Server) Exec(all []*Session, se *Session, argv []string, tm Time) Exp {
	if len(argv) == 0 {
		return ErrE("")
	}
	name := up(argv[0])
	switch name {
	case "MULTI":
		if len(argv) != 1 {
			return s.rejected(se)
		}
		if se.InMulti {
			return ErrE("ERR")
		}
		se.InMulti = true
		se.Queue = nil
		se.Aborted = false
		return OK()
	case "DISCARD":
		if len(argv) != 1 {
			return s.rejected(se)
		}
		if !se.InMulti {
			return ErrE("ERR")
		}
		se.InMulti, se.Queue, se.Aborted = false, nil, false
		se.Watches, se.MissingAtWatch = map[watchRef]int{}, map[watchRef]bool{}
		return OK()
	case "WATCH":
		if len(argv) < 2 {
			return s.rejected(se)
		}
		if se.InMulti {
			return ErrE("ERR")
		}
		for _, k := range argv[1:] {
			s.DBs[se.DB].lookup(k, tm)
			w := watchRef{se.DB, k}
			if _, ok := se.Watches[w]; !ok {
				se.Watches[w] = wClean
				se.MissingAtWatch[w] = s.DBs[se.DB].Keys[k] == nil
			}
		}
		return OK()
	case "UNWATCH":
		if len(argv) != 1 {
			return s.rejected(se)
		}
		if se.InMulti {
			// Redis queues UNWATCH inside MULTI; the effect at EXEC time is nil because EXEC unwatches anyway
			se.Queue = append(se.Queue, argv)
			return Val(kit.Simple("QUEUED"))
		}
		se.Watches, se.MissingAtWatch = map[watchRef]int{}, map[watchRef]bool{}
		return OK()
	case "EXEC":
		if len(argv) != 1 {
			return s.rejected(se)
		}
		if !se.InMulti {
			return ErrE("ERR")
		}
		queue := se.Queue
		aborted := se.Aborted
		level := wClean
		for _, l := range se.Watches {
			if l > level {
				level = l
			}
		}
		se.InMulti, se.Queue, se.Aborted = false, nil, false
		se.Watches, se.MissingAtWatch = map[watchRef]int{}, map[watchRef]bool{}
		if aborted {
			return ErrE("EXECABORT")
		}
		if level == wMust {
			return NilE()
		}
		if level == wDontCare {
			return Exp{Kind: EAny, Why: "EXEC after a write that left a watched key identical: Redis signals some of these"}
		}
		sub := make([]Exp, 0, len(queue))
		for _, q := range queue {
			if up(q[0]) == "UNWATCH" {
				sub = append(sub, OK())
				continue
			}
			sub = append(sub, s.execOne(all, se, q, tm, true))
		}
		return Exp{Kind: EExec, Sub: sub}
	}
	if se.InMulti {
		rej, known := QueueRejected(argv)
		if !known {
			return Exp{Kind: EAny, Why: "no arity known for queued command " + name}
		}
		if rej {
			return s.rejected(se)
		}
		if name == "SELECT" {
			if _, ok := parseInt(argv[1]); !ok {
				return Any("argument type errors are found at queue time by the emulator's grammar parser, at EXEC time by Redis")
			}
		}
		if Known(name) {
			// a command that fails even against an empty database fails because of its arguments (not an
			// integer, out of range, bad option): the emulator's grammar finds part of these while queueing,
			// Redis finds them at EXEC. Which of the two is left open.
			if e := NewDB().Exec(argv, tm); e.IsErr() {
				return Any("argument errors are found at queue time by the emulator's grammar parser, at EXEC time by Redis")
			}
		}
		se.Queue = append(se.Queue, argv)
		return Val(kit.Simple("QUEUED"))
	}
	return s.execOne(all, se, argv, tm, false)
}

// helloExp: the HELLO reply is a map (flat array under RESP2) whose "proto" entry names the protocol in force.
func helloExp(proto int) Exp {
	return Pred(func(v kit.Value) error {
		if proto == 3 && v.K != kit.KMap {
			return fmt.Errorf("HELLO reply under RESP3 must be a map")
		}
		if proto == 2 && v.K != kit.KArr {
			return fmt.Errorf("HELLO reply under RESP2 must be a flat array")
		}
		c := v.Canon()
		for i := 0; i+1 < len(c.A); i += 2 {
			if c.A[i].S == "proto" {
				if c.A[i+1].K != kit.KInt || c.A[i+1].I != int64(proto) {
					return fmt.Errorf("HELLO reports proto %s, expected %d", c.A[i+1], proto)
				}
				return nil
			}
		}
		return fmt.Errorf("HELLO reply has no proto entry")
	})
}

func (s *Server) rejected(se *Session) Exp {
	if se.InMulti {
		se.Aborted = true
	}
	return ErrE("")
}

// WouldBeAny reports whether the model leaves the outcome of this command open (the runner then
// does not send it at all, so that model and emulator cannot drift apart).
func (s *Server) WouldBeAny(all []*Session, se *Session, argv []string, tm Time) bool {
	// run on a deep copy
	cs := &Server{}
	for i := range s.DBs {
		cs.DBs[i] = s.DBs[i].Clone()
	}
	call := make([]*Session, len(all))
	var cse *Session
	for i, x := range all {
		c := *x
		c.Queue = append([][]string(nil), x.Queue...)
		c.Watches = map[watchRef]int{}
		for k, v := range x.Watches {
			c.Watches[k] = v
		}
		c.MissingAtWatch = map[watchRef]bool{}
		for k, v := range x.MissingAtWatch {
			c.MissingAtWatch[k] = v
		}
		call[i] = &c
		if x == se {
			cse = &c
		}
	}
	e := cs.Exec(call, cse, argv, tm)
	if e.Kind == EAny {
		return true
	}
	if e.Kind == EExec {
		for _, sub := range e.Sub {
			if sub.Kind == EAny {
				return true
			}
		}
	}
	return false
}

func (e Exp) matchExec(got kit.Value) error {
	c := got
	if c.K != kit.KArr {
		return fmt.Errorf("reply %s, model expects the array of %d queued results", got, len(e.Sub))
	}
	if len(c.A) != len(e.Sub) {
		return fmt.Errorf("EXEC returned %d results for %d queued commands: %s", len(c.A), len(e.Sub), got)
	}
	for i, sub := range e.Sub {
		if err := sub.Match(c.A[i]); err != nil {
			return fmt.Errorf("EXEC result #%d: %v", i, err)
		}
	}
	return nil
}

// AbortOnlyByVanishedKeys reports whether an EXEC now must abort solely because of watched keys that
// did not exist when they were watched and do not exist now (they were created and removed again in
// between) - the shape of known finding KF-C10-ABA.
func (s *Server) AbortOnlyByVanishedKeys(se *Session) bool {
	if !se.InMulti || se.Aborted {
		return false
	}
	aba := false
	for w, level := range se.Watches {
		if level != wMust {
			continue
		}
		if se.MissingAtWatch[w] && s.DBs[w.db].Keys[w.key] == nil {
			aba = true
		} else {
			return false
		}
	}
	return aba
}

// TryBlocking applies the non-blocking form of a blocking list command (what the command does when
// it is first issued, and again each time the blocked client is woken). served=false means nothing
// was available and the model is unchanged.
func (s *Server) TryBlocking(all []*Session, se *Session, argv []string, tm Time) (exp Exp, served bool) {
	forms, ok := blockingAsNonBlocking(argv)
	if !ok {
		return arityErr(), true
	}
	name := up(argv[0])
	for _, f := range forms {
		probe := s.DBs[se.DB].Clone().Exec(f, tm)
		if probe.Kind == EVal && probe.V.K == kit.KNil {
			continue
		}
		e := s.runData(all, se.DB, f, tm)
		if (name == "BLPOP" || name == "BRPOP") && e.Kind == EVal && e.V.K == kit.KBulk {
			return Val(kit.Arr(kit.Bulk(f[1]), e.V)), true
		}
		return e, true
	}
	return NilE(), false
}
