// emuhost runs one emulator in its own process (property C13: a panic on an emulator goroutine takes
// the whole process down, which the harness must observe from outside).
package main

import (
	"fmt"
	"os"
	"strconv"
	"syscall"

	"github.com/jimsnab/go-lane"
	redisemu "github.com/jimsnab/go-redisemu"
)

func main() {
	if len(os.Args) < 2 {
		fmt.Println("usage: emuhost <port> [persist-path]")
		os.Exit(2)
	}
	port, _ := strconv.Atoi(os.Args[1])
	persist := ""
	if len(os.Args) > 2 {
		persist = os.Args[2]
	}
	// memory bound: a command must not be able to take the machine down
	lim := uint64(8) << 30
	syscall.Setrlimit(syscall.RLIMIT_AS, &syscall.Rlimit{Cur: lim, Max: lim})
	e, err := redisemu.NewEmulator(lane.NewNullLane(nil), port, "127.0.0.1", persist, nil)
	if err != nil {
		fmt.Println("error:", err)
		os.Exit(3)
	}
	e.Start()
	fmt.Println("READY")
	select {}
}
