package props

import (
	"bytes"
	"encoding/binary"
	"fmt"
	"math/bits"
	"os"
	"os/exec"
	"path/filepath"
	"strconv"
	"strings"
	"sync"
	"testing"
	"time"

	"pgregory.net/rapid"

	"verifharness/kit"
)

// C13 — no client input can crash the process, stall other clients, or go unanswered.
//
// The emulator runs in a child process (cmd/emuhost), because a panic on one of its goroutines takes
// the whole process down: here that is an observable event that rapid can shrink against.

var c13Names = strings.Fields(`append bitcount bitfield bitfield_ro bitop bitpos blmove blmpop blpop brpop brpoplpush client|getname client|id client|info client|list client|kill client|no-evict client|setinfo client|setname client|unblock command|count command|docs command|getkeys command|getkeysandflags command|help command|info command|list copy dbsize decr decrby del discard dump echo exec exists expire expireat expiretime flushall flushdb get getbit getdel getex getrange getset incr incrby incrbyfloat info hdel hexists hello hget hgetall hincrby hincrbyfloat hkeys hlen hmget hmset hrandfield hscan hset hsetnx hstrlen hvals lcs lindex linsert llen lmove lmpop lpush lpushx lpop lpos lrange lrem lset ltrim mget mset msetnx multi keys pexpire pexpireat pexpiretime persist psetex ping pttl quit randomkey rename renamenx restore rpush rpushx rpop rpoplpush sadd scard scan sdiff sdiffstore select set setbit setex setnx setrange sinter sintercard sinterstore sismember smembers smismember smove sort srandmember srem strlen substr sscan sunion sunionstore touch ttl type unlink unwatch watch client command nosuchcmd`)

var c13Blocking = map[string]bool{"blmove": true, "blmpop": true, "blpop": true, "brpop": true, "brpoplpush": true}

// numeric boundaries; nothing between 2^20 and 2^40 (would legitimately allocate up to 512 MiB)
var c13Nums = []string{"0", "1", "-1", "2", "7", "8", "9", "63", "64", "65", "100", "1000", "65535", "65536", "1048576",
	"1099511627776", "2147483647", "2147483648", "-2147483648", "-2147483649", "4294967295", "4294967296", "4294967297",
	"9223372036854775807", "-9223372036854775808", "9223372036854775808", "-9223372036854775809", "18446744073709551615", "1000000000000000000000000000000"}
var c13Odd = []string{"", "nan", "inf", "-inf", "1e309", "0x10", "1_0", "1.5", "-0", "+5", "007", " 1", "1 ", "abc", "\x00", "\xff\xfe", "*", "#1", "#-1", "i8", "u8", "i64", "u63", "u64", "i65", "i0"}
var c13Keywords = []string{"NX", "XX", "GT", "LT", "EX", "PX", "EXAT", "PXAT", "KEEPTTL", "GET", "PERSIST", "LEFT", "RIGHT", "BEFORE", "AFTER", "COUNT", "RANK", "MAXLEN",
	"MATCH", "TYPE", "LIMIT", "BY", "ASC", "DESC", "ALPHA", "STORE", "WITHVALUES", "REPLACE", "ABSTTL", "DB", "LEN", "IDX", "MINMATCHLEN", "WITHMATCHLEN", "BIT", "BYTE",
	"OVERFLOW", "WRAP", "SAT", "FAIL", "SET", "INCRBY", "AND", "OR", "XOR", "NOT", "ID", "ADDR", "LADDR", "USER", "SKIPME", "YES", "NO", "TIMEOUT", "ERROR", "ON", "OFF",
	"SETNAME", "AUTH", "FILTERBY", "MODULE", "ACLCAT", "PATTERN", "string", "list", "hash", "set", "LIB-NAME", "LIB-VER", "ASYNC", "SYNC"}

// (the last four: names whose length is a multiple of 8 and that differ only in bit 3 of a block's first
// byte - they once received identical table hashes, and storing both never returned)
var c13Keys = []string{"ks", "kl", "kh", "kz", "kmiss", "kempty", "ks1", "0abcdefg", "8abcdefg", "0abcdefgABCDEFGH", "8abcdefgABCDEFGH"}

func c13Arg(t *rapid.T) string {
	switch weighted(t, "pool", []int{5, 4, 2, 3, 1}) {
	case 0:
		return pick(t, "key", c13Keys...)
	case 1:
		return pick(t, "num", c13Nums...)
	case 2:
		return pick(t, "odd", c13Odd...)
	case 3:
		return pick(t, "kw", c13Keywords...)
	}
	return string(rapid.SliceOfN(rapid.Byte(), 0, 6).Draw(t, "bytes"))
}

// C13Frame is one thing written to the socket.
type C13Frame struct {
	Argv  kit.Argv `json:"argv,omitempty"`  // a well-formed command (array of bulk strings) ...
	Raw   kit.S    `json:"raw,omitempty"`   // ... or raw bytes
	Split int      `json:"split,omitempty"` // well-formed command written in two pieces, cut at this per-mille position (0 = one write)
}

type C13Case struct {
	Frames []C13Frame `json:"frames"`
}

func c13Structured(t *rapid.T) kit.Argv {
	name := pick(t, "name", c13Names...)
	parts := strings.Split(name, "|")
	argv := kit.Argv{}
	for _, p := range parts {
		argv = append(argv, kit.S(randCase(t, p)))
	}
	for n := rapid.IntRange(0, 8).Draw(t, "arity"); n > 0; n-- {
		argv = append(argv, kit.S(c13Arg(t)))
	}
	return argv
}

// c13NonBulk renders a frame whose arguments are not all bulk strings.
func c13NonBulk(t *rapid.T) string {
	elems := []string{":5\r\n", ":-1\r\n", "+OK\r\n", "-ERR x\r\n", "$-1\r\n", "*-1\r\n", "_\r\n", "#t\r\n", "#f\r\n", ",1.5\r\n", ",inf\r\n", "(12345678901234567890\r\n",
		"=7\r\ntxt:abc\r\n", "!3\r\nerr\r\n", "*0\r\n", "*1\r\n$1\r\na\r\n", "*2\r\n:1\r\n:2\r\n", "%1\r\n$1\r\na\r\n$1\r\nb\r\n", "~2\r\n$1\r\na\r\n$1\r\nb\r\n",
		"~1\r\n*1\r\n$1\r\na\r\n", "%1\r\n*1\r\n:1\r\n$1\r\nv\r\n", "~1\r\n%1\r\n:1\r\n:2\r\n", "|1\r\n$1\r\na\r\n$1\r\nb\r\n", ">2\r\n+pubsub\r\n$1\r\nx\r\n",
		"$?\r\n;3\r\nabc\r\n;0\r\n", "*?\r\n:1\r\n.\r\n", "%?\r\n$1\r\na\r\n:1\r\n.\r\n", "~?\r\n:1\r\n.\r\n", "$3\r\nGET\r\n", "$2\r\nks\r\n", "$4\r\nPING\r\n", "$3\r\nSET\r\n"}
	n := rapid.IntRange(1, 4).Draw(t, "n")
	var sb strings.Builder
	hdr := pick(t, "hdr", "*", "*", "*", "~", ">", "%")
	cnt := n
	if hdr == "%" {
		cnt = n / 2
	}
	fmt.Fprintf(&sb, "%s%d\r\n", hdr, cnt)
	for i := 0; i < n; i++ {
		sb.WriteString(pick(t, "el", elems...))
	}
	return sb.String()
}

func c13Malformed(t *rapid.T) string {
	return pick(t, "bad",
		"\r\n", "\r\n\r\n", "\n", " \r\n", "*\r\n", "$\r\n", "*1\r\n$\r\n", "*abc\r\n", "$abc\r\n", "*1\r\n$abc\r\n",
		"*2147483648\r\n", "*9223372036854775807\r\n", "*-9223372036854775808\r\n", "*-2\r\n", "$9223372036854775807\r\n", "*1\r\n$9223372036854775807\r\n",
		"*1\r\n$-2\r\n", "*1\r\n$2147483648\r\n", "$-9223372036854775808\r\n", "*1\r\n$4\r\nPINGxx", "*1\r\n$4\r\nPI\r\n", "PING\r\n", "GET ks\r\n", "?\r\n", "@\r\n",
		"*1\r\n*1\r\n*1\r\n*1\r\n*1\r\n$4\r\nPING\r\n", ":\r\n", ",\r\n", ",abc\r\n", "(\r\n", "(abc\r\n", "#x\r\n", "=2\r\nab\r\n", "=-1\r\n", "!-1\r\n", "%-1\r\n", "~-1\r\n", ">0\r\n", ">-1\r\n",
		"$?\r\n;-1\r\n", "$?\r\nxyz\r\n", "*?\r\n", "%1\r\n$1\r\na\r\n", "*3\r\n$3\r\nSET\r\n$1\r\nk\r\n", "\x00\x00\x00\x00", "\xff\xff\r\n", "*1\r\n$0\r\n\r\n", "*1\r\n$1\r\n\r\n\r\n",
	)
}

func c13Mutated(t *rapid.T) string {
	base := kit.EncodeCmd(c13Structured(t).Strs()...)
	b := append([]byte(nil), base...)
	for n := rapid.IntRange(1, 3).Draw(t, "muts"); n > 0 && len(b) > 0; n-- {
		pos := rapid.IntRange(0, len(b)-1).Draw(t, "pos")
		switch rapid.IntRange(0, 5).Draw(t, "mut") {
		case 0:
			b[pos] ^= byte(1 << rapid.IntRange(0, 7).Draw(t, "bit"))
		case 1:
			b = append(b[:pos], b[pos+1:]...)
		case 2:
			b = append(b[:pos], append([]byte{b[pos]}, b[pos:]...)...)
		case 3:
			b = b[:pos] // truncate
		case 4:
			b = append(b[:pos], append([]byte(pick(t, "ins", "\r\n", "-", "9", "99999999999", "*", "$", "\x00")), b[pos:]...)...)
		case 5:
			if b[pos] >= '0' && b[pos] <= '9' {
				b[pos] = byte('0' + rapid.IntRange(0, 9).Draw(t, "digit"))
			}
		}
	}
	return string(b)
}

var c13Templates = [][]string{
	{"SCAN", "0", "COUNT", "10", "MATCH", "*", "TYPE", "string"}, {"HSCAN", "kh", "0", "COUNT", "10"}, {"SSCAN", "kz", "0", "MATCH", "*"},
	{"HRANDFIELD", "kh", "2", "WITHVALUES"}, {"HRANDFIELD", "kh", "-2"}, {"SRANDMEMBER", "kz", "2"}, {"LPOS", "kl", "1", "RANK", "1", "COUNT", "2", "MAXLEN", "5"},
	{"LMPOP", "2", "kl", "kmiss", "LEFT", "COUNT", "2"}, {"SINTERCARD", "2", "kz", "kz", "LIMIT", "1"}, {"DUMP", "ks"}, {"COPY", "ks", "kx", "DB", "1", "REPLACE"},
	{"GETRANGE", "ks", "0", "-1"}, {"SETRANGE", "ks", "1", "ab"}, {"BITFIELD", "ks", "GET", "u8", "0", "SET", "i5", "3", "7", "OVERFLOW", "SAT", "INCRBY", "u4", "#1", "1"},
	{"BITFIELD_RO", "ks", "GET", "i8", "0"}, {"BITCOUNT", "ks", "0", "-1", "BIT"}, {"BITPOS", "ks", "1", "0", "-1", "BYTE"}, {"SETBIT", "ks", "7", "1"}, {"GETBIT", "ks", "7"},
	{"BITOP", "AND", "kx", "ks", "ks1"}, {"BITOP", "NOT", "kx", "ks"}, {"SORT", "kl", "BY", "w_*", "LIMIT", "0", "10", "GET", "#", "ALPHA", "DESC", "STORE", "kx"},
	{"LCS", "ks", "ks1", "IDX", "MINMATCHLEN", "1", "WITHMATCHLEN"}, {"LCS", "ks", "ks1", "LEN"}, {"CLIENT", "LIST", "ID", "1", "2"}, {"CLIENT", "LIST", "TYPE", "normal"},
	{"CLIENT", "UNBLOCK", "999", "TIMEOUT"}, {"CLIENT", "NO-EVICT", "ON"}, {"CLIENT", "SETINFO", "LIB-NAME", "x"}, {"CLIENT", "SETNAME", "n"}, {"CLIENT", "INFO"}, {"CLIENT", "ID"},
	{"COMMAND", "DOCS", "get"}, {"COMMAND", "INFO", "get", "set"}, {"COMMAND", "GETKEYS", "SET", "a", "b"}, {"COMMAND", "GETKEYS", "LMPOP", "2", "a", "b", "LEFT"},
	{"COMMAND", "GETKEYSANDFLAGS", "SORT", "a", "STORE", "b"}, {"COMMAND", "GETKEYS", "SINTERCARD", "2", "a", "b"}, {"COMMAND", "LIST", "FILTERBY", "PATTERN", "s*"},
	{"COMMAND", "LIST", "FILTERBY", "ACLCAT", "read"}, {"COMMAND", "COUNT"}, {"COMMAND", "HELP"}, {"HELLO", "3", "SETNAME", "x"}, {"HELLO", "2"},
	{"EXPIRE", "ks", "100", "NX"}, {"PEXPIREAT", "ks", "4102444800000", "GT"}, {"EXPIREAT", "ks", "4102444800"}, {"PEXPIRE", "ks", "100000"},
	{"SET", "ks", "v", "EX", "100", "NX", "GET"}, {"SET", "ks", "v", "PXAT", "4102444800000"}, {"GETEX", "ks", "PXAT", "4102444800000"}, {"GETEX", "ks", "EX", "100"},
	{"SETEX", "ks", "100", "v"}, {"PSETEX", "ks", "100000", "v"}, {"INCRBYFLOAT", "ks", "1.5"}, {"HINCRBYFLOAT", "kh", "f", "1.5"}, {"HINCRBY", "kh", "f", "5"}, {"INCRBY", "ks", "5"},
	{"LINSERT", "kl", "BEFORE", "1", "x"}, {"LTRIM", "kl", "0", "-1"}, {"LRANGE", "kl", "0", "-1"}, {"LSET", "kl", "0", "x"}, {"LREM", "kl", "0", "x"}, {"LINDEX", "kl", "0"},
	{"LPOP", "kl", "2"}, {"RPOP", "kl", "2"}, {"LMOVE", "kl", "kx", "LEFT", "RIGHT"}, {"SELECT", "1"}, {"INFO", "server"}, {"INFO"}, {"KEYS", "*"}, {"RANDOMKEY"}, {"DBSIZE"},
	{"KEYS", "[a-"}, {"KEYS", "k[^0-"}, {"KEYS", "*[z-"}, {"KEYS", "["}, {"KEYS", "[^"}, {"KEYS", "k[\\"}, {"KEYS", "\\"}, {"KEYS", "[]-"}, {"KEYS", "k[a-z"}, {"KEYS", "[k-"}, {"KEYS", "*[^"},
	{"SCAN", "0", "MATCH", "[a-"}, {"SCAN", "0", "MATCH", "*[k-"}, {"HSCAN", "kh", "0", "MATCH", "[a-"}, {"HSCAN", "kh", "0", "MATCH", "f[^"}, {"SSCAN", "kz", "0", "MATCH", "[0-"}, {"SSCAN", "kz", "0", "MATCH", "m\\"},
	{"COMMAND", "LIST", "FILTERBY", "PATTERN", "[a-"}, {"COMMAND", "LIST", "FILTERBY", "PATTERN", "*[s-"}, {"SORT", "kl", "BY", "w_[a-"}, {"SORT", "kl", "GET", "[0-*"},
	{"RESTORE", "kx", "0", "\x01\x01\x00\x00\x00\x03ab\x00\x00\x00\x00\x00\x00\x00\x00", "REPLACE", "ABSTTL"}, {"@DUMPRESTORE", "kl"}, {"@DUMPRESTORE", "kh"}, {"@DUMPRESTORE", "kz"}, {"@DUMPRESTORE", "ks"},
	{"SMOVE", "kz", "kx", "m"}, {"SINTERSTORE", "kx", "kz", "kz"}, {"SDIFF", "kz", "kmiss"}, {"MSET", "a", "1", "b", "2"}, {"MSETNX", "a", "1", "b", "2"}, {"MGET", "a", "ks"},
	{"HSET", "kh", "a", "1", "b", "2"}, {"HMGET", "kh", "f", "g"}, {"HDEL", "kh", "f"}, {"RENAME", "ks", "kx"}, {"RENAMENX", "ks", "kx"}, {"UNLINK", "ks", "kl"}, {"TOUCH", "ks", "kl"},
	{"WATCH", "ks"}, {"MULTI"}, {"EXEC"}, {"DISCARD"}, {"UNWATCH"}, {"TTL", "ks1"}, {"PTTL", "ks1"}, {"EXPIRETIME", "ks1"}, {"PERSIST", "ks1"}, {"TYPE", "ks"}, {"ECHO", "x"}, {"PING", "x"},
	{"FLUSHDB"}, {"FLUSHALL"},
}

func init() {
	for _, tm := range c13Templates {
		for i, a := range tm {
			if strings.Contains(a, "\\x") {
				if u, err := strconv.Unquote(`"` + a + `"`); err == nil {
					tm[i] = u
				}
			}
		}
	}
}

// c13Template: a valid command shape with 0-2 arguments replaced by hostile values / removed / duplicated.
func c13Template(t *rapid.T) kit.Argv {
	base := c13Templates[rapid.IntRange(0, len(c13Templates)-1).Draw(t, "tmpl")]
	a := append([]string(nil), base...)
	if a[0][0] == '@' {
		return kit.A(a...)
	}
	for n := rapid.IntRange(0, 2).Draw(t, "edits"); n > 0 && len(a) > 1; n-- {
		pos := rapid.IntRange(1, len(a)-1).Draw(t, "pos")
		switch rapid.IntRange(0, 5).Draw(t, "edit") {
		case 0, 1, 2:
			a[pos] = c13Arg(t)
		case 3:
			a = append(a[:pos], a[pos+1:]...)
		case 4:
			a = append(a[:pos], append([]string{a[pos]}, a[pos:]...)...)
		case 5:
			a = append(a, c13Arg(t))
		}
	}
	return kit.A(a...)
}

func c13Gen(t *rapid.T) C13Case {
	var c C13Case
	for n := rapid.IntRange(1, 6).Draw(t, "frames"); n > 0; n-- {
		split := 0
		if rapid.IntRange(0, 4).Draw(t, "split") == 0 {
			split = rapid.IntRange(1, 999).Draw(t, "splitat")
		}
		switch weighted(t, "kind", []int{6, 2, 2, 2, 12, 1, 1, 3, 3}) {
		case 8:
			// commands that fail (or do nothing) after looking at - and possibly creating - a key: what they leave behind is probed at the end of the case
			c.Frames = append(c.Frames, C13Frame{Argv: c06Failing(t), Split: split})
		case 7:
			c.Frames = append(c.Frames, c13IntSweep(t)...)
		case 6:
			c.Frames = append(c.Frames, C13Frame{Argv: c13Crafted(t), Split: split})
		case 5:
			// a value larger than the server's 8 KiB read buffer
			c.Frames = append(c.Frames, C13Frame{Argv: kit.A(pick(t, "bigcmd", "SET", "APPEND", "LPUSH", "SADD", "ECHO"), "kbig", strings.Repeat("v", pick(t, "biglen", 8192, 8193, 9000, 20000))), Split: split})
		case 4:
			c.Frames = append(c.Frames, C13Frame{Argv: c13Template(t), Split: split})
		case 0:
			c.Frames = append(c.Frames, C13Frame{Argv: c13Structured(t), Split: split})
		case 1:
			c.Frames = append(c.Frames, C13Frame{Raw: kit.S(c13NonBulk(t))})
		case 2:
			c.Frames = append(c.Frames, C13Frame{Raw: kit.S(c13Malformed(t))})
		default:
			c.Frames = append(c.Frames, C13Frame{Raw: kit.S(c13Mutated(t))})
		}
	}
	return c
}

// c13Checksum mirrors the trailer of the emulator's DUMP format (checked against a real DUMP in TestC13ChecksumMirror);
// if the format changes the crafted payloads are merely rejected as corrupt.
func c13Checksum(data []byte) []byte {
	var sum uint64
	for _, b := range data {
		sum = bits.RotateLeft64(sum, 10) ^ uint64(b)
	}
	out := make([]byte, 8)
	binary.BigEndian.PutUint64(out, sum)
	return out
}

var c13IntBoundaries = []string{"9223372036854775807", "-9223372036854775808", "9223372036854775806", "-9223372036854775807", "9223372036854775808", "-9223372036854775809",
	"18446744073709551615", "18446744073709551616", "2147483647", "2147483648", "-2147483648", "-2147483649", "4294967295", "4294967296", "0", "-1"}

// c13IntSweep: one valid command shape, one of its integer arguments, and every boundary value in turn at that
// position (the data set is rebuilt before each, so that every value meets the same non-empty state).
func c13IntSweep(t *rapid.T) []C13Frame {
	for try := 0; try < 20; try++ {
		base := c13Templates[rapid.IntRange(0, len(c13Templates)-1).Draw(t, "sweeptmpl")]
		if base[0][0] == '@' {
			continue
		}
		var pos []int
		for i, a := range base[1:] {
			if _, err := strconv.ParseInt(a, 10, 64); err == nil {
				pos = append(pos, i+1)
			}
		}
		if len(pos) == 0 {
			continue
		}
		p := pos[rapid.IntRange(0, len(pos)-1).Draw(t, "sweeppos")]
		var out []C13Frame
		for _, v := range c13IntBoundaries {
			a := append([]string(nil), base...)
			a[p] = v
			out = append(out, C13Frame{Argv: kit.A("@RESET")}, C13Frame{Argv: kit.A(a...)})
		}
		return out
	}
	return []C13Frame{{Argv: kit.A("PING")}}
}

// c13Crafted: DUMP payload content with every field drawn independently.
func c13Crafted(t *rapid.T) kit.Argv {
	data := rapid.SliceOfN(rapid.Byte(), 0, 8).Draw(t, "data")
	version := pick(t, "ver", 1, 1, 1, 1, 1, 0, 2, 255)
	typ := pick(t, "type", 1, 1, 2, 4, 8, 16, 3, 5, 9, 0, 255, 32, 64, 128, 17, rapid.IntRange(0, 255).Draw(t, "anytype"))
	declared := uint32(len(data) + 1)
	switch rapid.IntRange(0, 9).Draw(t, "declkind") {
	case 0:
		declared = 0
	case 1:
		declared = uint32(len(data))
	case 2:
		declared = uint32(len(data) + 2)
	case 3:
		declared = pick(t, "decl", uint32(0xFFFFFFFF), uint32(0x80000000), uint32(0x7FFFFFFF), uint32(1), uint32(9))
	}
	content := []byte{byte(version), byte(typ), byte(declared >> 24), byte(declared >> 16), byte(declared >> 8), byte(declared)}
	content = append(content, data...)
	return kit.A("@RESTORECRAFT", string(content))
}

// ---- child process host ---------------------------------------------------------------------------------------

type c13Host struct {
	cmd   *exec.Cmd
	port  int
	addr  string
	out   bytes.Buffer
	mu    sync.Mutex
	dead  bool
	exitC chan struct{}
}

var (
	c13BuildOnce sync.Once
	c13Bin       string
	c13BuildErr  error
	c13Cur       *c13Host
)

func c13Binary() (string, error) {
	c13BuildOnce.Do(func() {
		if p := os.Getenv("VERIF_EMUHOST"); p != "" {
			c13Bin = p
			return
		}
		dir := os.Getenv("VERIF_RUN")
		if dir == "" {
			dir = os.TempDir()
		}
		c13Bin = filepath.Join(dir, fmt.Sprintf("emuhost-%d", os.Getpid()))
		cmd := exec.Command("go", "build", "-tags", "verif", "-o", c13Bin, "verifharness/cmd/emuhost")
		cmd.Dir = ".."
		out, err := cmd.CombinedOutput()
		if err != nil {
			c13BuildErr = fmt.Errorf("building emuhost: %v: %s", err, out)
		}
	})
	return c13Bin, c13BuildErr
}

func c13Start() (*c13Host, error) {
	bin, err := c13Binary()
	if err != nil {
		return nil, err
	}
	h := &c13Host{port: kit.FreePort(), exitC: make(chan struct{})}
	h.addr = "127.0.0.1:" + strconv.Itoa(h.port)
	h.cmd = exec.Command(bin, strconv.Itoa(h.port))
	h.cmd.Stdout = &h.out
	h.cmd.Stderr = &h.out
	if err := h.cmd.Start(); err != nil {
		return nil, err
	}
	go func() {
		h.cmd.Wait()
		h.mu.Lock()
		h.dead = true
		h.mu.Unlock()
		close(h.exitC)
	}()
	for i := 0; i < 400; i++ {
		if c, err := kit.Dial(h.addr); err == nil {
			c.Close()
			return h, nil
		}
		time.Sleep(5 * time.Millisecond)
		if h.isDead() {
			break
		}
	}
	return nil, fmt.Errorf("emuhost did not come up: %s", h.out.String())
}

func (h *c13Host) isDead() bool {
	h.mu.Lock()
	defer h.mu.Unlock()
	return h.dead
}

func (h *c13Host) kill() {
	if !h.isDead() {
		h.cmd.Process.Kill()
		<-h.exitC
	}
}

func (h *c13Host) crashText() string {
	s := h.out.String()
	if i := strings.Index(s, "panic:"); i >= 0 {
		s = s[i:]
	} else if i := strings.Index(s, "fatal error:"); i >= 0 {
		s = s[i:]
	}
	lines := strings.Split(s, "\n")
	var keep []string
	for _, l := range lines {
		if strings.HasPrefix(l, "panic:") || strings.HasPrefix(l, "fatal error:") || strings.Contains(l, "go-redisemu.") {
			keep = append(keep, strings.TrimSpace(l))
		}
		if len(keep) >= 6 {
			break
		}
	}
	return strings.Join(keep, " | ")
}

// host returns a live child, restarting it when the previous case killed it.
func c13GetHost() (*c13Host, error) {
	if c13Cur != nil && !c13Cur.isDead() {
		return c13Cur, nil
	}
	h, err := c13Start()
	if err != nil {
		return nil, err
	}
	c13Cur = h
	return h, nil
}

var c13Setup = [][]string{{"FLUSHALL"}, {"SET", "ks", "10"}, {"RPUSH", "kl", "3", "1", "2"}, {"HSET", "kh", "f", "1", "g", "x"}, {"SADD", "kz", "1", "2", "m"},
	{"SET", "kempty", ""}, {"SET", "ks1", "abcdefgh"}, {"PEXPIREAT", "ks1", "4102444800000"}}

// c13Huge: the case contains an offset or length that legitimately makes the server allocate hundreds of
// megabytes (Redis accepts bit offsets below 2^32 and byte offsets below 512 MiB). Such a case gets a child
// process of its own, so that the memory of earlier cases does not count against the address-space limit.
func c13Huge(c C13Case) bool {
	for _, f := range c.Frames {
		for _, a := range f.Argv {
			if n, err := strconv.ParseUint(strings.TrimPrefix(string(a), "#"), 10, 64); err == nil && n >= 1<<26 && n < 1<<33 {
				return true
			}
		}
	}
	return false
}

func c13Run(c C13Case, st *kit.Stats) error {
	if c13Huge(c) {
		st.Class("case-with-a-huge-but-legal-offset(own child process)")
		if c13Cur != nil {
			c13Cur.kill()
		}
		defer func() {
			if c13Cur != nil {
				c13Cur.kill()
			}
		}()
	}
	h, err := c13GetHost()
	if err != nil {
		return fmt.Errorf("harness: %v", err)
	}
	suspicious := false // set when something already went wrong: wait longer for the process to finish dying
	died := func(what string) error {
		wait := 2 * time.Millisecond
		if suspicious {
			wait = 300 * time.Millisecond
		}
		select {
		case <-h.exitC:
		case <-time.After(wait):
		}
		if h.isDead() {
			return fmt.Errorf("the emulator process died %s: %s", what, h.crashText())
		}
		return nil
	}
	setup, err := kit.Dial(h.addr)
	if err != nil {
		return fmt.Errorf("harness: dial: %v", err)
	}
	for _, s := range c13Setup {
		if v, err := setup.Do(s...); err != nil || v.IsErr() {
			setup.Close()
			if e := died("during set-up"); e != nil {
				return e
			}
			return fmt.Errorf("set-up %v failed: %v %v", s, v, err)
		}
	}
	setup.Close()
	bystander, err := kit.Dial(h.addr)
	if err != nil {
		return fmt.Errorf("harness: dial: %v", err)
	}
	defer bystander.Close()
	if v, err := bystander.Do("PING"); err != nil || !kit.Equal(v, kit.Simple("PONG")) {
		return fmt.Errorf("bystander PING before the case: %v %v", v, err)
	}
	conn, err := kit.Dial(h.addr)
	if err != nil {
		return fmt.Errorf("harness: dial: %v", err)
	}
	conn.Proto = 0 // lenient: every RESP type and both null forms (HELLO 3 may be part of the case)
	defer func() { conn.Close() }()
	killedOthers := false
	hostile := false
	sig := []string{}
	for i, f := range c.Frames {
		if f.Argv == nil {
			// raw bytes: owe nothing but survival; continue on a fresh connection
			hostile = true
			st.Class("raw-frame")
			conn.Write([]byte(f.Raw))
			conn.Drain(4 * time.Millisecond)
			conn.Close()
			if e := died(fmt.Sprintf("after raw frame %q", clipS(string(f.Raw)))); e != nil {
				return e
			}
			conn, err = kit.Dial(h.addr)
			if err != nil {
				suspicious = true
				if e := died(fmt.Sprintf("after raw frame %q", clipS(string(f.Raw)))); e != nil {
					return e
				}
				return fmt.Errorf("cannot connect after raw frame %q: %v", clipS(string(f.Raw)), err)
			}
			conn.Proto = 0
			sig = append(sig, "raw")
			continue
		}
		argv := f.Argv.Strs()
		if argv[0] == "@RESET" {
			for _, s := range c13Setup[1:] {
				conn.DoT(5*time.Second, s...)
			}
			continue
		}
		if argv[0] == "@RESTORECRAFT" {
			// a payload built field by field (version, type bits, declared length, data) under a correct checksum, then commands of every family on the restored key
			st.Class("restore-crafted")
			payload := argv[1] + string(c13Checksum([]byte(argv[1])))
			for _, a := range [][]string{{"RESTORE", "kr", "0", payload, "REPLACE"}, {"TYPE", "kr"}, {"GET", "kr"}, {"STRLEN", "kr"}, {"APPEND", "kr", "x"}, {"HGET", "kr", "f"}, {"HLEN", "kr"}, {"HSET", "kr", "f", "v"}, {"HGETALL", "kr"},
				{"RESTORE", "kr", "0", payload, "REPLACE"}, {"SCARD", "kr"}, {"SADD", "kr", "x"}, {"SMEMBERS", "kr"}, {"SINTER", "kr", "kz"},
				{"RESTORE", "kr", "0", payload, "REPLACE"}, {"LLEN", "kr"}, {"RPUSH", "kr", "x"}, {"LRANGE", "kr", "0", "-1"}, {"LPOP", "kr"}, {"SORT", "kr"},
				{"RESTORE", "kr", "0", payload, "REPLACE"}, {"DUMP", "kr"}, {"COPY", "kr", "kr2", "REPLACE"}, {"RENAME", "kr", "kr3"}, {"HLEN", "kr2"}, {"LLEN", "kr3"}, {"SCARD", "kr3"}, {"GETRANGE", "kr2", "0", "-1"}, {"KEYS", "*"}, {"DEL", "kr", "kr2", "kr3"}} {
				rv, err := conn.DoT(5*time.Second, a...)
				if err == nil && a[0] == "RESTORE" && rv.K == kit.KSimple {
					st.Class("restore-crafted-accepted")
				}
				if err != nil {
					suspicious = true
					if e := died(fmt.Sprintf("on %s after RESTORE of a crafted payload %q", a[0], payload)); e != nil {
						return e
					}
					return fmt.Errorf("%v after RESTORE of a crafted payload %q: %v", a[:2], payload, err)
				}
			}
			sig = append(sig, "restorecraft/"+argv[1][:min(2, len(argv[1]))])
			hostile = true
			continue
		}
		if argv[0] == "@DUMPRESTORE" {
			// DUMP a key, RESTORE the payload under another name, then use the copy
			st.Class("dump-restore")
			d, err := conn.DoT(5*time.Second, "DUMP", argv[1])
			if err != nil {
				suspicious = true
				if e := died("on DUMP " + argv[1]); e != nil {
					return e
				}
				return fmt.Errorf("DUMP %s: %v", argv[1], err)
			}
			if d.K == kit.KBulk {
				for _, a := range [][]string{{"RESTORE", "kr", "0", d.S, "REPLACE"}, {"TYPE", "kr"}, {"LLEN", "kr"}, {"HGETALL", "kr"}, {"SMEMBERS", "kr"}, {"GET", "kr"}, {"LPUSH", "kr", "x"}, {"SADD", "kr", "x"}, {"HSET", "kr", "f", "v"}, {"COPY", "kr", "kr2"}, {"DEL", "kr", "kr2"}} {
					if _, err := conn.DoT(5*time.Second, a...); err != nil {
						suspicious = true
						if e := died(fmt.Sprintf("on %s after RESTORE of the DUMP of %s", a[0], argv[1])); e != nil {
							return e
						}
						return fmt.Errorf("%v after RESTORE of DUMP %s: %v", a[:2], argv[1], err)
					}
				}
			}
			sig = append(sig, "dumprestore/"+argv[1])
			hostile = true
			continue
		}
		name := strings.ToLower(argv[0])
		st.Class("cmd:" + name)
		for _, a := range argv[1:] {
			if len(a) > 6 || a == "" || strings.ContainsAny(a, "-+.# \x00") {
				hostile = true
			}
		}
		sig = append(sig, fmt.Sprintf("%s/%d", name, len(argv)-1))
		if c13Blocking[name] {
			// blocking commands may legitimately not answer: separate connection, no reply owed
			bc, err := kit.Dial(h.addr)
			if err == nil {
				bc.Write(kit.EncodeCmd(argv...))
				bc.Drain(3 * time.Millisecond)
				bc.Close()
			}
			if e := died(fmt.Sprintf("after %s", f.Argv)); e != nil {
				return e
			}
			continue
		}
		if name == "client" && len(argv) > 1 && strings.EqualFold(argv[1], "kill") {
			killedOthers = true
		}
		var v kit.Value
		var err error
		if f.Split > 0 {
			// the same well-formed command, arriving in two TCP segments
			enc := kit.EncodeCmd(argv...)
			cut := 1 + (len(enc)-2)*f.Split/1000
			conn.Write(enc[:cut])
			time.Sleep(2 * time.Millisecond)
			conn.Write(enc[cut:])
			v, err = conn.Read(5 * time.Second)
			st.Class("command-in-two-segments")
		} else {
			v, err = conn.DoT(5*time.Second, argv...)
		}
		if err != nil {
			suspicious = true
			if e := died(fmt.Sprintf("on command %d %s", i, f.Argv)); e != nil {
				return e
			}
			if name == "quit" || (killedOthers) {
				// the connection is legitimately gone: continue on a fresh one
				conn.Close()
				conn, err = kit.Dial(h.addr)
				if err != nil {
					return fmt.Errorf("cannot reconnect after %s: %v", f.Argv, err)
				}
				conn.Proto = 0
				continue
			}
			return fmt.Errorf("well-formed command %d %s got no well-formed reply: %v", i, f.Argv, err)
		}
		if v.IsErr() {
			st.Class("error-reply")
		}
		if name == "quit" {
			conn.Close()
			conn, _ = kit.Dial(h.addr)
			conn.Proto = 0
		}
	}
	if e := died("during the case"); e != nil {
		return e
	}
	// whatever the case left behind is readable: every key that exists answers the read commands of every family
	// (a value in a state its commands cannot handle shows as a missing reply or a dead process here)
	if !killedOthers {
		probe, err := kit.Dial(h.addr)
		if err == nil {
			probe.Proto = 0
			ks, err := probe.DoT(5*time.Second, "KEYS", "*")
			if err == nil && ks.K == kit.KArr {
				st.ClassN("keys-probed-after-the-case", len(ks.A))
				for i, kv := range ks.A {
					if i >= 12 {
						break
					}
					k := kv.S
					// a string that the case grew to many megabytes (SETBIT / SETRANGE at a huge offset is legal) is not read
					// back in full: the host runs under a 4 GiB address-space limit that is the harness' choice, not the emulator's
					if sl, err := probe.DoT(3*time.Second, "STRLEN", k); err == nil && sl.K == kit.KInt && sl.I > 1<<20 {
						st.Class("huge-string-not-probed")
						continue
					}
					for _, a := range [][]string{{"HRANDFIELD", k}, {"HRANDFIELD", k, "-3"}, {"HRANDFIELD", k, "3", "WITHVALUES"}, {"HGETALL", k}, {"HSCAN", k, "0"},
						{"SRANDMEMBER", k}, {"SRANDMEMBER", k, "-3"}, {"SMEMBERS", k}, {"SSCAN", k, "0"}, {"LRANGE", k, "0", "-1"}, {"LINDEX", k, "-1"},
						{"GETRANGE", k, "0", "-1"}, {"SORT", k, "ALPHA"}, {"DUMP", k}, {"COPY", k, "probe-copy", "REPLACE"}, {"DEL", "probe-copy"}} {
						if _, err := probe.DoT(3*time.Second, a...); err != nil {
							suspicious = true
							if e := died(fmt.Sprintf("on %v (probing the keys the case left behind)", a)); e != nil {
								return e
							}
							return fmt.Errorf("after the case, %v on a key the case left behind got no reply within 3 s: %v", a, err)
						}
					}
				}
			}
			probe.Close()
		}
	}
	// other clients are still served and see their own data
	nonce := fmt.Sprintf("n%d", len(c.Frames)*7919+len(sig))
	if !killedOthers {
		if v, err := bystander.DoT(5*time.Second, "SELECT", "15"); err != nil || v.IsErr() {
			suspicious = true
			if e := died("before the bystander probe"); e != nil {
				return e
			}
			return fmt.Errorf("a connection that sent nothing unusual is no longer served: SELECT 15 -> %v %v", v, err)
		}
		bystander.Do("SET", "bystander", nonce)
		if v, err := bystander.DoT(5*time.Second, "GET", "bystander"); err != nil || !kit.Equal(v, kit.Bulk(nonce)) {
			suspicious = true
			if e := died("during the bystander probe"); e != nil {
				return e
			}
			return fmt.Errorf("bystander connection: GET bystander -> %v %v, expected %q", v, err, nonce)
		}
	}
	fresh, err := kit.Dial(h.addr)
	if err != nil {
		suspicious = true
		if e := died("at the end of the case"); e != nil {
			return e
		}
		return fmt.Errorf("new connections are refused after the case: %v", err)
	}
	v, err := fresh.DoT(5*time.Second, "PING")
	fresh.Close()
	if err != nil || !kit.Equal(v, kit.Simple("PONG")) {
		suspicious = true
		if e := died("at the end of the case"); e != nil {
			return e
		}
		return fmt.Errorf("a fresh connection is not served after the case: PING -> %v %v", v, err)
	}
	if hostile {
		st.NonTrivial(strings.Join(sig, ","), c13Sample(c))
	}
	return nil
}

func clipS(s string) string {
	if len(s) > 60 {
		return s[:60] + "..."
	}
	return s
}

func c13Sample(c C13Case) []string {
	var out []string
	for _, f := range c.Frames {
		if f.Argv != nil {
			out = append(out, f.Argv.String())
		} else {
			out = append(out, fmt.Sprintf("raw %q", clipS(string(f.Raw))))
		}
	}
	return out
}

func TestC13(t *testing.T) {
	defer func() {
		if c13Cur != nil {
			c13Cur.kill()
		}
	}()
	kit.Check(t, kit.Prop[C13Case]{ID: "C13", Gen: c13Gen, Run: c13Run})
}

// TestC13ChecksumMirror: the harness' copy of the DUMP trailer agrees with what the emulator emits.
func TestC13ChecksumMirror(t *testing.T) {
	emu := kit.StartEmu("")
	defer emu.Stop()
	c := emu.Dial()
	c.Do("SET", "k", "some value")
	d, err := c.Do("DUMP", "k")
	if err != nil || d.K != kit.KBulk || len(d.S) < 9 {
		t.Fatalf("DUMP: %v %v", d, err)
	}
	body, sum := d.S[:len(d.S)-8], d.S[len(d.S)-8:]
	if string(c13Checksum([]byte(body))) != sum {
		t.Skip("the DUMP trailer is no longer the one mirrored by the harness: crafted payloads only exercise the rejection path")
	}
}
