package props

import (
	"encoding/json"
	"fmt"
	"os"
	"path/filepath"
	"regexp"
	"sort"
	"strconv"
	"strings"
	"sync"
	"testing"
	"time"

	"pgregory.net/rapid"

	"verifharness/kit"
)

// C16 — free of data races under any concurrent client workload.
//
// The test binary is built with -race (driver) and GORACE=halt_on_error=0 log_path=<run>/race.
// Generated concurrent workloads run against an emulator with a persist path (so the periodic
// saver runs); afterwards the race detector's log is parsed. Every report with a frame in the
// emulator package is a violation, identified by the unordered pair of innermost emulator functions.

type C16Case struct {
	Conns   [][]kit.Argv `json:"conns"`
	Drops   []int        `json:"drops"` // per connection: reconnect after this many commands (0 = never)
	Persist bool         `json:"persist"`
	Edge    *C16Edge     `json:"edge,omitempty"`
}

// C16Edge: after the mixed workload, rounds in which blocked clients leave their wait (timeout, CLIENT
// UNBLOCK, CLIENT KILL, closed socket) at the same moment at which another connection pushes to the list
// they wait for; the offset between the two events is swept over +-1.5 ms across the rounds.
type C16Edge struct {
	Kind      int `json:"kind"` // 1 timeout 2 CLIENT UNBLOCK 3 socket closed 4 CLIENT KILL 5 large values scanned while written 6 transaction reaching into another database
	Rounds    int `json:"rounds"`
	Waiters   int `json:"waiters"`
	TimeoutMs int `json:"timeout_ms"`
	Cmd       int `json:"cmd"` // 0 BLPOP 1 BRPOP two keys 2 BLMOVE 3 BLMPOP
}

var c16EdgeNames = []string{"", "timeout", "client-unblock", "socket-closed", "client-kill", "large-value-scanned-while-written", "transaction-reaching-into-another-database", "introspection-and-deadlines-across-databases", "databases-first-selected-while-the-periodic-saver-runs"}

// c16BigValue: a 256 KiB string, a hash and a list with large members; writers change them with the commands
// that could work in place, readers scan them with the commands whose work is proportional to the size.
func c16BigValue(emu *kit.Emu, e C16Edge) {
	n := 256 << 10
	admin := emu.Dial()
	admin.Do("SET", "bigs", strings.Repeat("\x00", n))
	admin.Do("HSET", "bigh", "f", strings.Repeat("h", n))
	admin.Do("RPUSH", "bigl", strings.Repeat("l", n), "tail")
	// two sets with 300 members each, half of them shared; a hash and a list with many small elements
	for _, k := range []string{"sa", "sb"} {
		a := []string{"SADD", k}
		for i := 0; i < 300; i++ {
			if i < 150 {
				a = append(a, "common-"+strconv.Itoa(i))
			} else {
				a = append(a, k+"-"+strconv.Itoa(i))
			}
		}
		admin.Do(a...)
	}
	hs, ls := []string{"HSET", "manyh"}, []string{"RPUSH", "manyl"}
	for i := 0; i < 300; i++ {
		hs = append(hs, "f"+strconv.Itoa(i), "v")
		ls = append(ls, "e"+strconv.Itoa(i%17))
	}
	admin.Do(hs...)
	admin.Do(ls...)
	admin.Close()
	chunk := strings.Repeat("\xff", n/2)
	var wg sync.WaitGroup
	run := func(cmds [][]string, rounds int) {
		wg.Add(1)
		go func() {
			defer wg.Done()
			cn, err := kit.Dial(emu.Addr)
			if err != nil {
				return
			}
			cn.Proto = 0
			defer cn.Close()
			for r := 0; r < rounds; r++ {
				cn.DoT(3*time.Second, cmds[r%len(cmds)]...)
			}
		}()
	}
	writes := [][]string{{"SETRANGE", "bigs", "0", chunk}, {"SETBIT", "bigs", "77", "1"}, {"BITFIELD", "bigs", "SET", "u8", "1024", "255"}, {"SETRANGE", "bigs", strconv.Itoa(n / 2), chunk}, {"BITFIELD", "bigs", "INCRBY", "u16", "64", "3"},
		{"LSET", "bigl", "0", strings.Repeat("m", n)}, {"HSET", "bigh", "f", strings.Repeat("i", n)}, {"APPEND", "bigs", ""}, {"SETBIT", "bigs", "77", "0"}, {"SETRANGE", "bigs", "0", strings.Repeat("\x00", n)}}
	reads := [][]string{{"BITCOUNT", "bigs"}, {"BITPOS", "bigs", "1"}, {"GET", "bigs"}, {"GETRANGE", "bigs", "0", "-1"}, {"DUMP", "bigs"}, {"STRLEN", "bigs"}, {"GETBIT", "bigs", "2000000"}, {"BITOP", "NOT", "bigd", "bigs"},
		{"LRANGE", "bigl", "0", "-1"}, {"HGETALL", "bigh"}, {"LINDEX", "bigl", "0"}, {"HGET", "bigh", "f"}, {"COPY", "bigs", "bigc", "REPLACE"}, {"LCS", "bigs", "bigs", "LEN"}, {"BITFIELD_RO", "bigs", "GET", "u8", "0"}}
	for w := 0; w < 1+e.Waiters/4; w++ {
		run(writes[w:], e.Rounds*2)
	}
	for r := 0; r < 2+e.Waiters/3; r++ {
		run(reads[r:], e.Rounds*2)
	}
	// commands that derive a result from whole collections, several at once over the same operands, and writers to those operands
	algebra := [][]string{{"SUNION", "sa", "sb"}, {"SINTER", "sa", "sb"}, {"SDIFF", "sa", "sb"}, {"SUNIONSTORE", "sd", "sa", "sb"}, {"SINTERSTORE", "sd2", "sa", "sb"}, {"SDIFFSTORE", "sd3", "sa", "sb"},
		{"SINTERCARD", "2", "sa", "sb"}, {"SMEMBERS", "sa"}, {"SRANDMEMBER", "sa", "50"}, {"SSCAN", "sa", "0", "COUNT", "100"}, {"SUNION", "sa", "sb", "sa"}, {"SMISMEMBER", "sa", "common-1", "nope"},
		{"HGETALL", "manyh"}, {"HKEYS", "manyh"}, {"HRANDFIELD", "manyh", "40", "WITHVALUES"}, {"HSCAN", "manyh", "0", "COUNT", "100"}, {"LRANGE", "manyl", "0", "-1"}, {"SORT", "manyl", "ALPHA"},
		{"LPOS", "manyl", "e3", "COUNT", "0"}, {"COPY", "sa", "sacopy", "REPLACE"}, {"COPY", "manyh", "hcopy", "REPLACE"}, {"SORT", "sa", "ALPHA", "LIMIT", "0", "10"}}
	mutate := [][]string{{"SADD", "sa", "extra"}, {"SREM", "sa", "extra"}, {"SMOVE", "sa", "sb", "sa-200"}, {"SMOVE", "sb", "sa", "sa-200"}, {"HSET", "manyh", "f7", "w"}, {"HDEL", "manyh", "f299"}, {"HSET", "manyh", "f299", "v"},
		{"LSET", "manyl", "5", "e3"}, {"LPUSH", "manyl", "head"}, {"LPOP", "manyl"}, {"LINSERT", "manyl", "BEFORE", "e5", "ins"}, {"LREM", "manyl", "1", "ins"}}
	for r := 0; r < 3+e.Waiters/3; r++ {
		run(algebra[r*3%len(algebra):], e.Rounds*2)
	}
	run(mutate, e.Rounds*2)
	wg.Wait()
}

// c16CrossDB: a transaction of a connection in database 5 SELECTs database 6, works there and comes back, while
// another connection works in database 6. Command ids are numbered per database; the rounds walk the number
// of commands database 5 has handled across the number database 6 had handled at its last EXEC (-2..+2), so
// that every relation between the two counters - equal included - is met while the two connections overlap.
func c16CrossDB(_ *kit.Emu, e C16Edge) {
	// an emulator of its own: the counters of databases 5 and 6 start at zero (FLUSHALL of the mixed workload touches every database)
	emu := kit.StartEmu("")
	defer emu.Stop()
	a, b, c := emu.Dial(), emu.Dial(), emu.Dial()
	defer a.Close()
	defer b.Close()
	defer c.Close()
	a.Do("SELECT", "5")
	b.Do("SELECT", "6")
	c.Do("SELECT", "6")
	cnt5, cnt6 := 0, 0
	const inner = 12 // commands the transaction runs in database 6
	for r := 0; r < e.Rounds; r++ {
		delta := r%5 - 2
		// database 6 gets ahead, then its EXEC leaves its id behind
		for cnt6+3 < cnt5+inner+4+3 {
			b.Do("PING")
			cnt6++
		}
		b.Do("MULTI")
		b.Do("SET", "y", strconv.Itoa(r))
		b.Do("EXEC")
		cnt6 += 3
		idB := cnt6
		// the transaction of A: MULTI, SELECT 6, inner commands, SELECT 5, EXEC
		for pad := idB + delta - (cnt5 + inner + 4); pad > 0; pad-- {
			a.Do("PING")
			cnt5++
		}
		a.Do("MULTI")
		a.Do("SELECT", "6")
		for i := 0; i < inner; i++ {
			if i%2 == 0 {
				a.Do("SET", "x", strconv.Itoa(i))
			} else {
				a.Do("GET", "x")
			}
		}
		a.Do("SELECT", "5")
		var wg sync.WaitGroup
		wg.Add(1)
		const burst = 16
		go func() {
			defer wg.Done()
			for i := 0; i < burst; i++ {
				if i%2 == 0 {
					c.Do("GET", "x")
				} else {
					c.Do("APPEND", "x", "z")
				}
			}
		}()
		a.Do("EXEC")
		wg.Wait()
		cnt5 += inner + 4
		cnt6 += burst + inner + 1 // + the queued SELECT 5, which is re-issued on the database it runs in
	}
}

// c16Introspect: connections that watch keys of database 6 and keep changing them and their deadlines, readers
// of those deadlines, and a connection of database 5 whose transactions SELECT database 6, list the clients
// (which reports each client's watch state) and come back.
func c16Introspect(emu *kit.Emu, e C16Edge) {
	var wg sync.WaitGroup
	run := func(db string, rounds int, cmds [][]string) {
		wg.Add(1)
		go func() {
			defer wg.Done()
			cn, err := kit.Dial(emu.Addr)
			if err != nil {
				return
			}
			cn.Proto = 0
			defer cn.Close()
			cn.Do("SELECT", db)
			for r := 0; r < rounds; r++ {
				cn.DoT(3*time.Second, cmds[r%len(cmds)]...)
			}
		}()
	}
	n := e.Rounds * 4
	run("5", n, [][]string{{"MULTI"}, {"SELECT", "6"}, {"CLIENT", "LIST"}, {"CLIENT", "INFO"}, {"TTL", "wk"}, {"SELECT", "5"}, {"EXEC"}})
	run("6", n, [][]string{{"WATCH", "wk", "wk2"}, {"GET", "wk"}, {"MULTI"}, {"SET", "wk", "v"}, {"EXEC"}, {"UNWATCH"}})
	run("6", n, [][]string{{"SET", "wk", "1"}, {"EXPIRE", "wk", "100"}, {"PERSIST", "wk"}, {"PEXPIREAT", "wk", "4102444800000"}, {"GETEX", "wk", "EX", "50"}, {"DEL", "wk"}, {"SET", "wk2", "x", "PX", "5000"}})
	run("6", n, [][]string{{"TTL", "wk"}, {"PTTL", "wk"}, {"EXPIRETIME", "wk"}, {"PEXPIRETIME", "wk"}, {"TTL", "wk2"}, {"CLIENT", "LIST"}, {"OBJECT", "IDLETIME", "wk"}, {"TOUCH", "wk"}})
	run("0", n, [][]string{{"CLIENT", "LIST"}, {"INFO"}, {"CLIENT", "INFO"}, {"DBSIZE"}})
	wg.Wait()
}

// c16FirstSelects: an emulator with a persist path (the saver runs once a second); for a little more than a second
// connections select databases nobody has used yet, one every few milliseconds, and write a key there.
func c16FirstSelects(e C16Edge) {
	dir, err := os.MkdirTemp(os.Getenv("VERIF_RUN"), "c16s-")
	if err != nil {
		return
	}
	defer os.RemoveAll(dir)
	emu := kit.StartEmu(filepath.Join(dir, "data"))
	defer emu.Stop()
	conns := make([]*kit.Conn, 2+e.Waiters/3)
	for i := range conns {
		conns[i] = emu.Dial()
		conns[i].Do("SET", "seed", "1")
	}
	start := time.Now()
	for db := 1; db <= 15; db++ {
		cn := conns[db%len(conns)]
		cn.Do("SELECT", strconv.Itoa(db))
		cn.Do("SET", "k", strconv.Itoa(db))
		time.Sleep(time.Until(start.Add(time.Duration(db) * 85 * time.Millisecond)))
	}
}

func c16EdgeRun(emu *kit.Emu, e C16Edge) {
	if e.Kind == 8 {
		c16FirstSelects(e)
		return
	}
	if e.Kind == 7 {
		c16Introspect(emu, e)
		return
	}
	if e.Kind == 5 {
		c16BigValue(emu, e)
		return
	}
	if e.Kind == 6 {
		c16CrossDB(emu, e)
		return
	}
	pusher, ctl := emu.Dial(), emu.Dial()
	defer pusher.Close()
	defer ctl.Close()
	for r := 0; r < e.Rounds; r++ {
		off := time.Duration(float64(r)/float64(e.Rounds)*3000-1500) * time.Microsecond
		ws := make([]*kit.Conn, e.Waiters)
		ids := make([]string, e.Waiters)
		for i := range ws {
			cn, err := kit.Dial(emu.Addr)
			if err != nil {
				return
			}
			cn.Proto = 0
			ws[i] = cn
			if v, err := cn.Do("CLIENT", "ID"); err == nil {
				ids[i] = strconv.FormatInt(v.I, 10)
			}
		}
		to := "0"
		if e.Kind == 1 {
			to = strconv.FormatFloat(float64(e.TimeoutMs)/1000, 'f', -1, 64)
		}
		blk := [][]string{{"BLPOP", "edge", to}, {"BRPOP", "edge0", "edge", to}, {"BLMOVE", "edge", "edgedst", "LEFT", "RIGHT", to}, {"BLMPOP", to, "2", "edge", "edge0", "LEFT"}}[e.Cmd]
		t0 := time.Now()
		for _, cn := range ws {
			cn.Write(kit.EncodeCmd(blk...))
		}
		at := t0.Add(time.Duration(e.TimeoutMs) * time.Millisecond)
		var wg sync.WaitGroup
		wg.Add(2)
		go func() {
			defer wg.Done()
			time.Sleep(time.Until(at.Add(off)))
			a := []string{"LPUSH", "edge"}
			for i := 0; i < e.Waiters; i++ {
				a = append(a, "v")
			}
			pusher.Do(a...)
		}()
		go func() {
			defer wg.Done()
			if e.Kind == 1 {
				return
			}
			time.Sleep(time.Until(at))
			for i, cn := range ws {
				switch e.Kind {
				case 2:
					ctl.Do("CLIENT", "UNBLOCK", ids[i], []string{"TIMEOUT", "ERROR"}[i%2])
				case 3:
					cn.Close()
				default:
					ctl.Do("CLIENT", "KILL", "ID", ids[i])
				}
			}
		}()
		wg.Wait()
		for _, cn := range ws {
			cn.Read(300 * time.Millisecond)
			cn.Close()
		}
		pusher.Do("DEL", "edge", "edgedst")
	}
}

func c16Cmd(t *rapid.T, nconn int) []string {
	k := pick(t, "k", "a", "b", "l", "h", "s", "l2")
	switch weighted(t, "grp", []int{10, 8, 3, 3, 3, 2, 2, 2, 2, 1}) {
	case 0:
		tm := cmdTable[rapid.IntRange(0, len(cmdTable)-1).Draw(t, "tmpl")]
		keys := make([]string, tm.slots)
		for i := range keys {
			keys[i] = pick(t, "tk", "a", "b", "l", "h", "s", "l2")
		}
		return tm.mk(t, keys)
	case 1:
		// cross-connection introspection
		return pick(t, "intro", []string{"CLIENT", "LIST"}, []string{"CLIENT", "INFO"}, []string{"INFO"}, []string{"INFO", "clients"}, []string{"DBSIZE"},
			[]string{"CLIENT", "SETNAME", "n" + strconv.Itoa(rapid.IntRange(0, 3).Draw(t, "nm"))}, []string{"CLIENT", "GETNAME"}, []string{"CLIENT", "ID"},
			[]string{"COMMAND", "COUNT"}, []string{"COMMAND", "GETKEYS", "SET", "a", "b"}, []string{"CLIENT", "NO-EVICT", "ON"})
	case 2:
		return []string{"SELECT", pick(t, "db", "0", "1", "0", "2")}
	case 3:
		return []string{"HELLO", pick(t, "pv", "2", "3")}
	case 4:
		return pick(t, "tx", []string{"MULTI"}, []string{"EXEC"}, []string{"DISCARD"}, []string{"WATCH", k}, []string{"UNWATCH"})
	case 5:
		return pick(t, "blk", []string{"BLPOP", "l", "l2", "0.01"}, []string{"BRPOP", "l", "0.02"}, []string{"BLMOVE", "l", "l2", "LEFT", "RIGHT", "0.01"}, []string{"BLMPOP", "0.01", "1", "l2", "LEFT"})
	case 6:
		return []string{"CLIENT", "UNBLOCK", strconv.Itoa(rapid.IntRange(1, 64).Draw(t, "id")), pick(t, "how", "TIMEOUT", "ERROR")}
	case 7:
		// grammar-heavy commands with reordered optional tokens
		return pick(t, "gram", []string{"SET", k, "v", "GET", "NX", "EX", "100"}, []string{"SET", k, "v", "PX", "100000", "XX", "GET"}, []string{"SET", k, "v", "KEEPTTL", "GET"},
			[]string{"SORT", "l", "ALPHA", "LIMIT", "0", "5", "DESC"}, []string{"SORT", "l", "DESC", "GET", "#", "ALPHA", "GET", "w_*"}, []string{"LPOS", "l", "x", "MAXLEN", "5", "RANK", "1", "COUNT", "2"},
			[]string{"GETEX", k, "PERSIST"}, []string{"EXPIRE", k, "100", "GT"}, []string{"SCAN", "0", "TYPE", "string", "COUNT", "5", "MATCH", "*"}, []string{"HRANDFIELD", "h", "2", "WITHVALUES"})
	case 8:
		return pick(t, "ks", []string{"KEYS", "*"}, []string{"SCAN", "0"}, []string{"RANDOMKEY"}, []string{"PERSIST", k}, []string{"EXPIRE", k, "1000"}, []string{"TTL", k}, []string{"TYPE", k})
	}
	return pick(t, "rare", []string{"FLUSHDB"}, []string{"CLIENT", "KILL", "ID", strconv.Itoa(rapid.IntRange(1, 64).Draw(t, "kid"))}, []string{"FLUSHALL"})
}

func c16Gen(t *rapid.T) C16Case {
	c := C16Case{Persist: rapid.IntRange(0, 3).Draw(t, "persist") > 0}
	n := rapid.IntRange(4, 10).Draw(t, "conns")
	for i := 0; i < n; i++ {
		var cmds []kit.Argv
		for j := rapid.IntRange(20, 120).Draw(t, "cmds"); j > 0; j-- {
			cmds = append(cmds, kit.A(c16Cmd(t, n)...))
		}
		c.Conns = append(c.Conns, cmds)
		d := 0
		if rapid.IntRange(0, 2).Draw(t, "drop") == 0 {
			d = rapid.IntRange(1, 60).Draw(t, "dropat")
		}
		c.Drops = append(c.Drops, d)
	}
	if rapid.IntRange(0, 2).Draw(t, "edge") == 0 {
		c.Edge = &C16Edge{Kind: rapid.IntRange(1, 8).Draw(t, "ekind"), Rounds: rapid.IntRange(10, 40).Draw(t, "erounds"), Waiters: rapid.IntRange(1, 8).Draw(t, "ewaiters"),
			TimeoutMs: pick(t, "ems", 10, 15, 20), Cmd: rapid.IntRange(0, 3).Draw(t, "ecmd")}
	}
	return c
}

var c16Last C16Case

func c16Run(c C16Case, st *kit.Stats) error {
	c16Last = c
	persist := ""
	if c.Persist {
		dir, err := os.MkdirTemp(os.Getenv("VERIF_RUN"), "c16-")
		if err != nil {
			return fmt.Errorf("harness: %v", err)
		}
		defer os.RemoveAll(dir)
		persist = filepath.Join(dir, "data")
	}
	emu := kit.StartEmu(persist)
	var wg sync.WaitGroup
	groups := map[string]bool{}
	for i, cmds := range c.Conns {
		for _, a := range cmds {
			groups[strings.ToUpper(string(a[0]))] = true
		}
		wg.Add(1)
		go func(i int, cmds []kit.Argv) {
			defer wg.Done()
			conn, err := kit.Dial(emu.Addr)
			if err != nil {
				return
			}
			conn.Proto = 0
			for j, a := range cmds {
				if c.Drops[i] > 0 && j == c.Drops[i] {
					conn.Close()
					if conn, err = kit.Dial(emu.Addr); err != nil {
						return
					}
					conn.Proto = 0
				}
				if _, err := conn.DoT(3*time.Second, a.Strs()...); err != nil {
					// killed by another connection's CLIENT KILL, or the like: reconnect
					conn.Close()
					if conn, err = kit.Dial(emu.Addr); err != nil {
						return
					}
					conn.Proto = 0
				}
			}
			conn.Close()
		}(i, cmds)
	}
	wg.Wait()
	if c.Edge != nil {
		c16EdgeRun(emu, *c.Edge)
		st.Class("edge:" + c16EdgeNames[c.Edge.Kind])
	}
	if c.Persist {
		time.Sleep(5 * time.Millisecond)
	}
	emu.Stop()
	st.ClassN("commands-issued", totalCmds(c))
	st.ClassN("connections", len(c.Conns))
	if len(groups) >= 6 {
		var sig []string
		for g := range groups {
			sig = append(sig, g)
		}
		sort.Strings(sig)
		st.NonTrivial(fmt.Sprintf("%d|%s|%v", len(c.Conns), strings.Join(sig, ","), c.Drops), map[string]any{"connections": len(c.Conns), "commands": totalCmds(c), "persist": c.Persist, "distinct_command_names": len(sig), "first_connection_head": SeqCase{Steps: head(c.Conns[0], 12)}.Sample()})
	}
	return nil
}

func head(a []kit.Argv, n int) []kit.Argv {
	if len(a) > n {
		return a[:n]
	}
	return a
}

func totalCmds(c C16Case) int {
	n := 0
	for _, x := range c.Conns {
		n += len(x)
	}
	return n
}

// ---- race log parsing -------------------------------------------------------------------------------------

type raceReport struct {
	Pair string
	Text string
}

var frameRe = regexp.MustCompile(`^\s+(\S+)\(`)

func parseRaceLog(text string) []raceReport {
	var out []raceReport
	blocks := strings.Split(text, "==================")
	for _, b := range blocks {
		if !strings.Contains(b, "WARNING: DATA RACE") {
			continue
		}
		// the two accesses: sections starting with "Write at"/"Read at"/"Previous write at"/"Previous read at"
		var inner []string
		lines := strings.Split(b, "\n")
		cur := -1
		for _, l := range lines {
			t := strings.TrimSpace(l)
			if strings.HasPrefix(t, "Write at") || strings.HasPrefix(t, "Read at") || strings.HasPrefix(t, "Previous write at") || strings.HasPrefix(t, "Previous read at") ||
				strings.HasPrefix(t, "Atomic write at") || strings.HasPrefix(t, "Atomic read at") || strings.HasPrefix(t, "Previous atomic") {
				inner = append(inner, "")
				cur = len(inner) - 1
				continue
			}
			if strings.HasPrefix(t, "Goroutine ") {
				cur = -1
			}
			if cur >= 0 && inner[cur] == "" {
				if m := frameRe.FindStringSubmatch(l); m != nil && strings.Contains(m[1], "go-redisemu") {
					f := m[1]
					f = f[strings.LastIndex(f, "/")+1:]
					inner[cur] = f
				}
			}
		}
		var fs []string
		for _, f := range inner {
			if f != "" {
				fs = append(fs, f)
			}
		}
		if len(fs) == 0 {
			out = append(out, raceReport{Pair: "(harness only)", Text: b})
			continue
		}
		sort.Strings(fs)
		if len(fs) == 1 {
			fs = append(fs, "(non-emulator frame)")
		}
		out = append(out, raceReport{Pair: fs[0] + " <-> " + fs[1], Text: b})
	}
	return out
}

func c16KnownPairs() map[string]string {
	out := map[string]string{}
	b, err := os.ReadFile(filepath.Join(os.Getenv("VERIF_ROOT"), "known_findings.json"))
	if err != nil || os.Getenv("VERIF_NO_KF") != "" {
		return out
	}
	var f struct {
		Findings []kit.Finding `json:"findings"`
	}
	if json.Unmarshal(b, &f) != nil {
		return out
	}
	for _, x := range f.Findings {
		if x.Property == "C16" && x.Status == "open" && strings.HasPrefix(x.Trigger, "pair: ") {
			out[strings.TrimPrefix(x.Trigger, "pair: ")] = x.ID
		}
	}
	return out
}

func TestC16(t *testing.T) {
	// the evaluation of the race log runs deferred: with races detected, testing marks the test as
	// failed and rapid leaves through FailNow
	defer c16Evaluate(t)
	kit.Check(t, kit.Prop[C16Case]{ID: "C16", Gen: c16Gen, Run: c16Run})
}

func c16Evaluate(t *testing.T) {
	if os.Getenv("VERIF_REPLAY") != "" {
		return
	}
	dir := os.Getenv("VERIF_RUN")
	files, _ := filepath.Glob(filepath.Join(dir, fmt.Sprintf("race.%d", os.Getpid())))
	var text strings.Builder
	for _, f := range files {
		b, _ := os.ReadFile(f)
		text.Write(b)
	}
	reports := parseRaceLog(text.String())
	known := c16KnownPairs()
	seen := map[string]raceReport{}
	for _, r := range reports {
		if _, dup := seen[r.Pair]; !dup {
			seen[r.Pair] = r
		}
	}
	var pairs []string
	for p := range seen {
		pairs = append(pairs, p)
	}
	sort.Strings(pairs)
	shard := ""
	if s := os.Getenv("VERIF_SHARD"); s != "" {
		shard = "." + s
	}
	summary := map[string]any{"race_detector_reports": len(reports), "distinct_pairs": pairs}
	sb, _ := json.Marshal(summary)
	os.WriteFile(filepath.Join(dir, "C16"+shard+".races.json"), sb, 0o644)
	var bad []string
	for _, p := range pairs {
		if id, ok := known[p]; ok {
			fmt.Printf("KNOWN-RACE %s %s\n", id, p)
			continue
		}
		bad = append(bad, p)
	}
	if len(bad) > 0 {
		msg := fmt.Sprintf("the race detector reported %d distinct racing pair(s) located in the emulator: %s\nfirst report:\n%s", len(bad), strings.Join(bad, "; "), clipLong(seen[bad[0]].Text))
		rec := map[string]any{"property": "C16", "error": msg, "case": c16Last}
		b, _ := json.MarshalIndent(rec, "", " ")
		os.WriteFile(filepath.Join(dir, "C16"+shard+".fail.json"), b, 0o644)
		t.Errorf("C16 violated: %s", msg)
	}
}

func clipLong(s string) string {
	if len(s) > 3000 {
		return s[:3000] + "..."
	}
	return s
}
