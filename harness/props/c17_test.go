package props

import (
	"encoding/json"
	"fmt"
	"math/bits"
	"sort"
	"strconv"
	"strings"
	"testing"
	"time"

	"pgregory.net/rapid"

	"verifharness/kit"
	"verifharness/model"
)

// C17 — SCAN / HSCAN / SSCAN: a full iteration (cursor 0 -> ... -> 0) is complete, invents nothing
// and terminates, whatever is inserted or deleted (and however the table is grown or shrunk) between
// its calls; MATCH, TYPE and COUNT only filter or batch.
//
// The case is pure data: sizes, the scan options and a list of mutation batches. Element names are
// derived from counters and the case's salt ("s<i>.<salt>" = never touched, "e<i>.<salt>" = volatile,
// "t<j>.<salt>" = a small pool that is added and removed over and over to drive the emulator's removal
// counter, which is what makes its table shrink and, with the re-insertion, grow again), so a case
// replays identically from JSON. No math/rand, no clock.
//
// Oracle (nothing beyond the property): A = elements present when the first call is sent, never
// deleted until the call that returns cursor 0, and passing MATCH/TYPE, must each be returned at
// least once; every returned element must have been present at some time during the iteration and
// pass MATCH/TYPE; an HSCAN value must be a value the field held during the iteration; every reply is
// [cursor-string, array]; after the last mutation the iteration ends within 4*n+1000 calls, and in
// any case within c17HardCap calls. Duplicates and any order are allowed.

// C17Batch is the mutation applied between two consecutive calls of the iteration (or, in Pre,
// before the first call).
type C17Batch struct {
	Skip     int  `json:"skip"`      // calls of the iteration made without any mutation before this batch is applied
	Ins      int  `json:"ins"`       // new volatile elements inserted (capped so that live <= c17MaxLive)
	DelPm    int  `json:"del_pm"`    // per-mille of the currently live volatile elements that is deleted
	DelSel   int  `json:"del_sel"`   // which ones: 0 oldest first, 1 newest first, 2 every other one first
	InsFirst bool `json:"ins_first"` // insert before deleting (higher peak) instead of after
	Reins    int  `json:"reins"`     // previously deleted volatile names inserted again (same hash, same bucket)
	ChurnRem int  `json:"churn_rem"` // number of removals produced by add/remove cycles of the pool t0..t<w-1>
	ChurnW   int  `json:"churn_w"`   // pool width (1..8)
	Rewrite  bool `json:"rewrite"`   // overwrite the values of the stable elements (they stay present)
	Rebuild  int  `json:"rebuild"`   // hash/set: swap in an equal collection built independently: 1 built element by element and renamed over it, 2 COPY aside / RENAME back, 3 a STORE form / COPY REPLACE onto itself from a rebuilt copy
}

type C17Case struct {
	Kind    string     `json:"kind"`   // "keys" (SCAN), "hash" (HSCAN), "set" (SSCAN)
	Salt    int        `json:"salt"`   // element names are s<i>.<salt>, e<i>.<salt>, t<j>.<salt>
	Stable  int        `json:"stable"` // elements s0.. never touched
	Vol0    int        `json:"vol0"`   // volatile elements e0.. present before the first batch
	Count   int        `json:"count"`  // COUNT option, 0 = not given
	Match   string     `json:"match"`  // MATCH pattern, "" = not given
	Type    string     `json:"type"`   // TYPE option (keys only), "" = not given
	Perm    int        `json:"perm"`   // order of the options on the command line
	Pre     []C17Batch `json:"pre"`    // history before the iteration starts
	Batches []C17Batch `json:"batches"`
}

// The emulator hashes names with SipHash under a fixed (zero) key, keeps one item per bucket and
// doubles the table until two colliding names separate, so the table size is a deterministic function
// of the names that are live together, and about n^2 buckets on average. Every name carries the
// case's salt ("e17.866") so that different cases see different table geometries. With arbitrary salts
// about one name universe in seven contains a pair that agrees in more than 22 low hash bits, i.e. a
// table of 2^24+ buckets (>= 128 MB; unsalted s99/s151 agree in 25 bits: 512 MB for 152 elements). That
// is a resource matter outside C17, so the salts are drawn from a list for which a scratch program
// found no pair agreeing in more than 20 bits among s0..s199, e0..e3999, t0..t7 (tables <= 2^21
// buckets). If the hash function changes the list is merely no longer special.
var c17Salts = []int{75, 250, 387, 648, 681, 709, 866, 874, 1005, 1077, 1114, 1240, 1241, 1344, 1455, 1465,
	1516, 1554, 1561, 1564, 1578, 1678, 1686, 1700, 1907, 1967, 2017, 2094, 2117, 2138, 2346, 2623,
	2966, 3057, 3192, 3311, 3316, 3349, 3350, 3360, 3372, 3710, 3817, 3850, 3941, 4098, 4122, 4279,
	4288, 4289, 4347, 4434, 4581, 4643, 4732, 4739, 4857, 4895, 4982, 4999, 5047, 5068, 5069, 5071}

const (
	c17MaxLive  = 400   // the emulator's table is ~n^2 buckets; keep it below a few MB
	c17Universe = 4000  // volatile names are e0..e3999; the counter wraps and re-uses names that are not live
	c17HardCap  = 20000 // calls after which a running iteration is reported as non-terminating
	c17ChunkLen = 40    // elements per multi-element command
)

var c17Counts = []int{0, 0, 1, 1, 1, 1, 1, 2, 2, 2, 3, 3, 7, 10, 100, 1000, 1000000000000000000, 9223372036854775807, 4611686018427387904, 2147483648}
var c17Patterns = []string{"", "", "", "", "*", "*", "e1*", "s*", "s*", "s1*", "*7.*", "?[0-4]*", "[es]*5.*", "zz*"}
var c17Types = []string{"string", "hash", "set", "list", "zset"}
var c17KeyTypes = []string{"string", "hash", "set", "list"}

// regimes: 0 "tiny" and 1 "small" keep the table small enough that the emulator's shrink threshold
// (removals > buckets/2, table ~ n^2 buckets) is reached with a few hundred / thousand removals, so
// that the table oscillates while the iteration is under way; 2 "large" crosses many doublings.
func c17Batch(t *rapid.T, regime int) C17Batch {
	b := C17Batch{}
	b.Skip = pick(t, "skip", 0, 0, 0, 0, 0, 0, 0, 1, 1, 2, 3, 8, 25)
	maxIns := [3]int{12, 40, 300}[regime]
	if rapid.IntRange(0, 3).Draw(t, "insKind") != 0 {
		b.Ins = rapid.IntRange(0, maxIns).Draw(t, "ins")
	}
	switch rapid.IntRange(0, 4).Draw(t, "delKind") {
	case 0:
		b.DelPm = 0
	case 1:
		b.DelPm = 1000
	default:
		b.DelPm = rapid.IntRange(0, 1000).Draw(t, "delPm")
	}
	b.DelSel = rapid.IntRange(0, 2).Draw(t, "delSel")
	b.InsFirst = rapid.Bool().Draw(t, "insFirst")
	if rapid.IntRange(0, 2).Draw(t, "reinsKind") == 0 {
		b.Reins = rapid.IntRange(0, 30).Draw(t, "reins")
	}
	switch regime {
	case 0:
		b.ChurnRem = pick(t, "churn", 0, 40, 100, 300, 700, 1500, 3000)
	case 1:
		b.ChurnRem = pick(t, "churn", 0, 0, 20, 80, 300, 1200, 2500, 5000)
	default:
		b.ChurnRem = pick(t, "churn", 0, 0, 0, 0, 100, 1000, 4000)
	}
	b.ChurnW = rapid.IntRange(1, 8).Draw(t, "churnW")
	b.Rewrite = rapid.IntRange(0, 3).Draw(t, "rewrite") == 0
	if rapid.IntRange(0, 5).Draw(t, "rebuild") == 0 {
		b.Rebuild = rapid.IntRange(1, 3).Draw(t, "rebuildhow")
	}
	return b
}

func c17Gen(t *rapid.T) C17Case { return c17GenKind(t, "") }

// c17GenKind: kind "" draws the kind of collection; "hash" / "set" fix it (HSCAN is also part of C04's command
// list and SSCAN of C05's, so those two checks run the same search restricted to their command).
func c17GenKind(t *rapid.T, kind string) C17Case {
	c := C17Case{}
	c.Kind = kind
	if kind == "" {
		c.Kind = pick(t, "kind", "keys", "hash", "set")
	}
	c.Salt = pick(t, "salt", c17GoodSalts()...)
	regime := rapid.IntRange(0, 2).Draw(t, "regime")
	minStable := 8
	if rapid.IntRange(0, 7).Draw(t, "fewStable") == 0 {
		minStable = 0 // includes the empty collection and a hash/set that disappears when emptied
	}
	switch regime {
	case 0:
		c.Stable = rapid.IntRange(minStable, 20).Draw(t, "stable")
		c.Vol0 = rapid.IntRange(0, 16).Draw(t, "vol0")
	case 1:
		c.Stable = rapid.IntRange(minStable, 40).Draw(t, "stable")
		c.Vol0 = rapid.IntRange(0, 60).Draw(t, "vol0")
	default:
		c.Stable = rapid.IntRange(minStable, 200).Draw(t, "stable")
		c.Vol0 = rapid.IntRange(0, c17MaxLive-c.Stable).Draw(t, "vol0")
	}
	c.Count = pick(t, "count", c17Counts...)
	c.Match = pick(t, "match", c17Patterns...)
	if rapid.IntRange(0, 5).Draw(t, "literal") == 0 {
		// patterns without a wildcard that name one stable element: plain, with escapes, with a one-character class
		lit := fmt.Sprintf("s%d.%d", rapid.IntRange(0, 3).Draw(t, "litn"), c.Salt)
		c.Match = pick(t, "litform", lit, "\\"+lit, lit[:1]+"\\"+lit[1:], strings.Replace(lit, ".", "\\.", 1), "["+lit[:1]+"]"+lit[1:], lit[:len(lit)-1]+"\\"+lit[len(lit)-1:], lit+"\\")
	}
	if c.Kind == "keys" && rapid.IntRange(0, 3).Draw(t, "typed") == 0 {
		c.Type = pick(t, "type", c17Types...)
	}
	// the emulator counts COUNT in matching elements, so with a selective filter a whole table is
	// walked by one call unless COUNT is tiny; favour tiny COUNTs there to keep mutations interleaved
	if (c.Type != "" || (c.Match != "" && c.Match != "*")) && rapid.IntRange(0, 3).Draw(t, "tinyCount") != 0 {
		c.Count = pick(t, "count2", 1, 1, 1, 2, 3)
	}
	c.Perm = rapid.IntRange(0, 5).Draw(t, "perm")
	np := pick(t, "npre", 0, 0, 1, 2, 3)
	for i := 0; i < np; i++ {
		c.Pre = append(c.Pre, c17Batch(t, regime))
	}
	nb := rapid.IntRange(0, 20).Draw(t, "nbatches")
	if nb < 4 && rapid.Bool().Draw(t, "moreBatches") {
		nb += 6
	}
	for i := 0; i < nb; i++ {
		c.Batches = append(c.Batches, c17Batch(t, regime))
	}
	if len(c.Batches) > 0 {
		c.Batches[0].Skip %= 2 // start mutating early; later batches are spread over the iteration by Skip
	}
	// no TEMP-EXCLUDE predicate is needed: no C17 defect is open
	return c
}

// ---- pipelined writer ----------------------------------------------------------------------------------

// c17Pipe writes commands in chunks and then reads their replies; every reply is compared with the
// reply a correct server gives (integer count or OK), because the oracle's notion of "present"
// depends on the mutations having really taken place.
type c17Pipe struct {
	conn *kit.Conn
	buf  []byte
	cmds []string
	want []int64 // expected integer reply, -1 = "+OK", -2 = any integer
	rbuf []byte
	tmp  []byte
	err  error
}

func c17Clip(b []byte) []byte {
	if len(b) > 120 {
		return b[:120]
	}
	return b
}

func (p *c17Pipe) add(want int64, argv ...string) {
	if p.err != nil {
		return
	}
	p.buf = append(p.buf, kit.EncodeCmd(argv...)...)
	s := strings.Join(argv, " ")
	if len(s) > 80 {
		s = s[:80] + "..."
	}
	p.cmds = append(p.cmds, s)
	p.want = append(p.want, want)
	if len(p.cmds) >= 100 {
		p.flush()
	}
}

func (p *c17Pipe) flush() error {
	if p.err != nil {
		return p.err
	}
	if len(p.cmds) == 0 {
		return nil
	}
	if err := p.conn.Write(p.buf); err != nil {
		p.err = fmt.Errorf("mutation pipeline: write failed: %v", err)
		return p.err
	}
	// replies are read with a private buffer (kit.Conn.Read allocates 64 KB per reply, which dominates
	// the cost of a case with thousands of mutations); the connection's own buffer is empty here
	// because every earlier command was a strict request/reply exchange
	rb := p.rbuf[:0]
	pos, got := 0, 0
	deadline := time.Now().Add(kit.ReplyTimeout)
	for got < len(p.cmds) {
		v, n, err := kit.Parse(rb[pos:], 2)
		if err == kit.ErrIncomplete {
			if p.tmp == nil {
				p.tmp = make([]byte, 32*1024)
			}
			p.conn.C.SetReadDeadline(deadline)
			m, rerr := p.conn.C.Read(p.tmp)
			rb = append(rb, p.tmp[:m]...)
			if m == 0 && rerr != nil {
				p.err = fmt.Errorf("mutation %q: no reply: %v", p.cmds[got], rerr)
				return p.err
			}
			continue
		}
		if err != nil {
			p.err = fmt.Errorf("mutation %q: malformed reply: %v; bytes=%q", p.cmds[got], err, c17Clip(rb[pos:]))
			return p.err
		}
		pos += n
		i := got
		got++
		ok := false
		if p.want[i] == -2 {
			ok = v.K == kit.KInt
		} else if p.want[i] < 0 {
			ok = v.IsString() && v.S == "OK"
		} else {
			ok = v.K == kit.KInt && v.I == p.want[i]
		}
		if !ok {
			p.err = fmt.Errorf("mutation %q replied %s (expected %d; -1 means OK) - the harness cannot tell what is present any more", p.cmds[i], v, p.want[i])
			return p.err
		}
	}
	if pos != len(rb) {
		p.err = fmt.Errorf("%d surplus reply bytes after %d mutations: %q", len(rb)-pos, len(p.cmds), c17Clip(rb[pos:]))
		return p.err
	}
	p.rbuf = rb[:0]
	p.buf = p.buf[:0]
	p.cmds = p.cmds[:0]
	p.want = p.want[:0]
	return nil
}

// ---- the harness-side view of the collection -----------------------------------------------------------

type c17World struct {
	kind   string
	suffix string
	p      *c17Pipe

	live  map[string]string // name -> current value (hash kind; "" otherwise)
	vol   []string          // live volatile names, insertion order
	dead  []string          // deleted volatile names, oldest first (candidates for re-insertion)
	nextE int
	ver   int

	iterating bool
	during    map[string]map[string]bool // present at some time since the iteration started -> values held
	always    map[string]bool            // present at the start and never deleted since

	// evidence: live count over the iteration
	peak, low    int
	grew, shrank bool
	churned      int
}

const (
	c17HashKey = "H"
	c17SetKey  = "S"
)

// c17TypeOf: the type of the key with this name (keys kind) is a function of its prefix and index.
func c17TypeOf(name string) string {
	n, _ := strconv.Atoi(name[1:strings.IndexByte(name, '.')])
	return c17KeyTypes[(n+int(name[0]))%4]
}

func (w *c17World) name(prefix string, i int) string {
	return prefix + strconv.Itoa(i) + w.suffix
}

func (w *c17World) value(name string) string {
	if w.kind == "set" {
		return ""
	}
	return "v" + strconv.Itoa(w.ver) + "." + name
}

func (w *c17World) note() {
	n := len(w.live)
	if !w.iterating {
		return
	}
	if n > w.peak {
		w.peak = n
	}
	if n < w.low {
		w.low = n
	}
	// upward: the size class (bit length) of the live count exceeds the class of an earlier low
	if bits.Len(uint(n)) > bits.Len(uint(w.low)) && n >= 16 {
		w.grew = true
		w.low = n // re-arm relative to the new level
	}
	// downward: below a quarter of the peak
	if n*4 < w.peak && w.peak >= 16 {
		w.shrank = true
		w.peak = n
	}
}

func (w *c17World) startIteration() {
	w.iterating = true
	w.during = make(map[string]map[string]bool, len(w.live))
	w.always = make(map[string]bool, len(w.live))
	for k, v := range w.live {
		w.during[k] = map[string]bool{v: true}
		w.always[k] = true
	}
	w.peak, w.low = len(w.live), len(w.live)
}

func (w *c17World) markPresent(name, val string) {
	w.live[name] = val
	if w.iterating {
		m := w.during[name]
		if m == nil {
			m = map[string]bool{}
			w.during[name] = m
		}
		m[val] = true
	}
}

// put inserts new elements or overwrites existing ones (all names must be in the same state).
func (w *c17World) put(names []string, exist bool) {
	if len(names) == 0 {
		return
	}
	w.ver++
	switch w.kind {
	case "keys":
		for _, k := range names {
			v := w.value(k)
			switch c17TypeOf(k) {
			case "string":
				if len(k)%2 == 0 {
					w.p.add(-1, "SET", k, v, "PX", "99999999") // a deadline far in the future changes nothing
				} else {
					w.p.add(-1, "SET", k, v)
				}
			case "hash":
				if exist {
					w.p.add(0, "HSET", k, "f", v)
				} else {
					w.p.add(1, "HSET", k, "f", v)
				}
			case "set":
				w.p.add(1, "SADD", k, v) // a new member either way
			case "list":
				if exist {
					w.p.add(-2, "RPUSH", k, v) // length unknown: any integer
				} else {
					w.p.add(1, "RPUSH", k, v)
				}
			}
			w.markPresent(k, "")
		}
	case "hash":
		for i := 0; i < len(names); i += c17ChunkLen {
			ch := names[i:min(i+c17ChunkLen, len(names))]
			argv := []string{"HSET", c17HashKey}
			for _, f := range ch {
				v := w.value(f)
				argv = append(argv, f, v)
				w.markPresent(f, v)
			}
			if exist {
				w.p.add(0, argv...)
			} else {
				w.p.add(int64(len(ch)), argv...)
			}
		}
	case "set":
		for i := 0; i < len(names); i += c17ChunkLen {
			ch := names[i:min(i+c17ChunkLen, len(names))]
			argv := append([]string{"SADD", c17SetKey}, ch...)
			for _, m := range ch {
				w.markPresent(m, "")
			}
			if exist {
				w.p.add(0, argv...)
			} else {
				w.p.add(int64(len(ch)), argv...)
			}
		}
	}
	w.note()
}

func (w *c17World) del(names []string) {
	if len(names) == 0 {
		return
	}
	var cmd []string
	switch w.kind {
	case "keys":
		cmd = []string{"DEL"}
	case "hash":
		cmd = []string{"HDEL", c17HashKey}
	case "set":
		cmd = []string{"SREM", c17SetKey}
	}
	for i := 0; i < len(names); i += c17ChunkLen {
		ch := names[i:min(i+c17ChunkLen, len(names))]
		w.p.add(int64(len(ch)), append(append([]string(nil), cmd...), ch...)...)
		for _, n := range ch {
			delete(w.live, n)
			if w.iterating {
				delete(w.always, n)
			}
		}
	}
	w.note()
}

func (w *c17World) stableNames(n int) []string {
	out := make([]string, n)
	for i := range out {
		out[i] = w.name("s", i)
	}
	return out
}

func (w *c17World) insertFresh(n int) {
	if room := c17MaxLive - len(w.live); n > room {
		n = room
	}
	if n <= 0 {
		return
	}
	names := make([]string, 0, n)
	for tries := 0; len(names) < n && tries < 2*c17Universe; tries++ {
		name := w.name("e", w.nextE%c17Universe)
		w.nextE++
		if _, isLive := w.live[name]; !isLive {
			names = append(names, name)
			w.live[name] = "" // reserved; put() sets the value
		}
	}
	w.put(names, false)
	w.vol = append(w.vol, names...)
}

func (w *c17World) deleteSome(pm, sel int) {
	k := len(w.vol) * pm / 1000
	if k == 0 {
		return
	}
	var victims, keep []string
	switch sel {
	case 0:
		victims, keep = w.vol[:k], w.vol[k:]
	case 1:
		keep, victims = w.vol[:len(w.vol)-k], w.vol[len(w.vol)-k:]
	default:
		// every other one first, then from the front
		chosen := make([]bool, len(w.vol))
		c := 0
		for i := 0; i < len(w.vol) && c < k; i += 2 {
			chosen[i] = true
			c++
		}
		for i := 1; i < len(w.vol) && c < k; i += 2 {
			chosen[i] = true
			c++
		}
		for i, n := range w.vol {
			if chosen[i] {
				victims = append(victims, n)
			} else {
				keep = append(keep, n)
			}
		}
	}
	victims = append([]string(nil), victims...)
	w.vol = append([]string(nil), keep...)
	w.del(victims)
	w.dead = append(w.dead, victims...)
}

func (w *c17World) reinsert(n int) {
	if room := c17MaxLive - len(w.live); n > room {
		n = room
	}
	var names []string
	for len(names) < n && len(w.dead) > 0 {
		name := w.dead[0]
		w.dead = w.dead[1:]
		if _, isLive := w.live[name]; !isLive { // the wrapped name counter may have re-used it already
			names = append(names, name)
			w.live[name] = ""
		}
	}
	if len(names) == 0 {
		return
	}
	w.put(names, false)
	w.vol = append(w.vol, names...)
}

func (w *c17World) churn(removals, width int) {
	if removals <= 0 {
		return
	}
	if width < 1 {
		width = 1
	}
	pool := make([]string, width)
	for i := range pool {
		pool[i] = w.name("t", i)
	}
	for done := 0; done < removals; done += width {
		w.put(pool, false)
		w.del(pool)
	}
	if w.iterating {
		w.churned += removals
	}
}

func (w *c17World) apply(b C17Batch, stable int) error {
	if b.InsFirst {
		w.insertFresh(b.Ins)
		w.deleteSome(b.DelPm, b.DelSel)
	} else {
		w.deleteSome(b.DelPm, b.DelSel)
		w.insertFresh(b.Ins)
	}
	w.reinsert(b.Reins)
	w.churn(b.ChurnRem, b.ChurnW)
	if b.Rewrite && stable > 0 {
		var names []string
		for _, n := range w.stableNames(stable) {
			if w.kind != "keys" || c17TypeOf(n) == "string" || c17TypeOf(n) == "hash" {
				names = append(names, n)
			}
		}
		if w.kind != "set" { // SADD of an existing member is covered by "reins"/churn; nothing to rewrite
			w.put(names, true)
		}
	}
	if b.Rebuild > 0 && w.kind != "keys" && len(w.live) > 0 {
		// the collection is replaced as a whole by one with exactly the same elements: every element stays present
		box := c17HashKey
		if w.kind == "set" {
			box = c17SetKey
		}
		names := make([]string, 0, len(w.live))
		for n := range w.live {
			names = append(names, n)
		}
		sort.Strings(names)
		build := func(dst string) {
			w.p.add(-2, "DEL", dst)
			for lo := 0; lo < len(names); lo += 100 {
				hi := min(lo+100, len(names))
				var a []string
				if w.kind == "set" {
					a = append([]string{"SADD", dst}, names[lo:hi]...)
				} else {
					a = []string{"HSET", dst}
					for _, n := range names[lo:hi] {
						a = append(a, n, w.live[n])
					}
				}
				w.p.add(-2, a...)
			}
		}
		switch b.Rebuild {
		case 1:
			build("rebuilt")
			w.p.add(-1, "RENAME", "rebuilt", box)
		case 2:
			w.p.add(-2, "COPY", box, "aside", "REPLACE")
			w.p.add(-1, "RENAME", "aside", box)
		default:
			build("rebuilt")
			if w.kind == "set" {
				w.p.add(-2, pick2(len(names), "SUNIONSTORE", "SINTERSTORE"), box, "rebuilt", box)
			} else {
				w.p.add(-2, "COPY", "rebuilt", box, "REPLACE")
			}
			w.p.add(-2, "DEL", "rebuilt")
		}
	}
	return w.p.flush()
}

// pick2 chooses between two names from a number (no randomness outside the generators).
func pick2(n int, a, b string) string {
	if n%2 == 0 {
		return a
	}
	return b
}

// ---- the check -------------------------------------------------------------------------------------------

func (c C17Case) scanArgv(cursor string) []string {
	var argv []string
	switch c.Kind {
	case "keys":
		argv = []string{"SCAN", cursor}
	case "hash":
		argv = []string{"HSCAN", c17HashKey, cursor}
	case "set":
		argv = []string{"SSCAN", c17SetKey, cursor}
	}
	var opts [][]string
	if c.Match != "" {
		opts = append(opts, []string{"MATCH", c.Match})
	}
	if c.Count != 0 {
		opts = append(opts, []string{"COUNT", strconv.Itoa(c.Count)})
	}
	if c.Kind == "keys" && c.Type != "" {
		ty := c.Type
		switch c.Perm % 3 { // the type name is matched without regard to case
		case 1:
			ty = strings.ToUpper(ty)
		case 2:
			ty = strings.ToUpper(ty[:1]) + ty[1:]
		}
		opts = append(opts, []string{"TYPE", ty})
	}
	// option order: rotate / reverse according to Perm
	if len(opts) > 1 {
		r := c.Perm % len(opts)
		opts = append(opts[r:], opts[:r]...)
		if c.Perm >= 3 {
			for i, j := 0, len(opts)-1; i < j; i, j = i+1, j-1 {
				opts[i], opts[j] = opts[j], opts[i]
			}
		}
	}
	for _, o := range opts {
		argv = append(argv, o...)
	}
	return argv
}

func (c C17Case) matches(name string) bool {
	if c.Match != "" && !model.GlobMatch(c.Match, name) {
		return false
	}
	if c.Kind == "keys" && c.Type != "" && c17TypeOf(name) != c.Type {
		return false
	}
	return true
}

func c17MatchKind(p string) string {
	switch {
	case p == "":
		return "none"
	case p == "*":
		return "star"
	case p == "zz*":
		return "nothing"
	case strings.HasSuffix(p, "*") && !strings.ContainsAny(p[:len(p)-1], "*?["):
		return "prefix"
	default:
		return "glob"
	}
}

type c17Call struct {
	In, Out string
	N       int
	Live    int
}

func c17Trace(tr []c17Call) string {
	var sb strings.Builder
	from := 0
	if len(tr) > 40 {
		from = len(tr) - 40
		fmt.Fprintf(&sb, "(%d earlier calls omitted) ", from)
	}
	for i := from; i < len(tr); i++ {
		fmt.Fprintf(&sb, "#%d %s->%s n=%d live=%d; ", i, tr[i].In, tr[i].Out, tr[i].N, tr[i].Live)
	}
	return sb.String()
}

type c17Sample struct {
	Kind     string `json:"kind"`
	Stable   int    `json:"stable"`
	Vol0     int    `json:"vol0"`
	Count    int    `json:"count"`
	Match    string `json:"match"`
	Type     string `json:"type"`
	Pre      int    `json:"pre_batches"`
	Batches  int    `json:"batches"`
	Applied  int    `json:"batches_applied_during_iteration"`
	Calls    int    `json:"calls"`
	Always   int    `json:"always_present_matching"`
	Distinct int    `json:"distinct_returned"`
	Total    int    `json:"total_returned"`
	Churned  int    `json:"pool_removals"`
	LiveEnd  int    `json:"live_at_end"`
}

func c17Run(c C17Case, st *kit.Stats) error {
	emu := kit.StartEmu("")
	defer emu.Stop()
	conn := emu.Dial()
	w := &c17World{kind: c.Kind, suffix: "." + strconv.Itoa(c.Salt), p: &c17Pipe{conn: conn}, live: map[string]string{}}

	// build the collection and its prior history
	w.put(w.stableNames(c.Stable), false)
	w.insertFresh(c.Vol0)
	if err := w.p.flush(); err != nil {
		return err
	}
	for _, b := range c.Pre {
		if err := w.apply(b, c.Stable); err != nil {
			return err
		}
	}

	// the iteration
	w.startIteration()
	type seen struct {
		first int
		vals  map[string]bool
	}
	returned := map[string]*seen{}
	total := 0
	cursor := "0"
	calls, applied, quiet, sinceStop, nFinal := 0, 0, 0, 0, -1
	var trace []c17Call
	for {
		argv := c.scanArgv(cursor)
		v, err := conn.Do(argv...)
		if err != nil {
			return fmt.Errorf("call %d %v: no well-formed reply: %v", calls, argv, err)
		}
		if v.K != kit.KArr || len(v.A) != 2 || v.A[0].K != kit.KBulk || v.A[1].K != kit.KArr {
			return fmt.Errorf("call %d %v: reply %s is not [cursor-string, array]", calls, argv, v)
		}
		next := v.A[0].S
		if _, perr := strconv.ParseUint(next, 10, 64); perr != nil || (len(next) > 1 && next[0] == '0') {
			return fmt.Errorf("call %d %v: cursor %q is not an unsigned decimal integer", calls, argv, next)
		}
		items := v.A[1].A
		step := 1
		if c.Kind == "hash" {
			step = 2
			if len(items)%2 != 0 {
				return fmt.Errorf("call %d %v: HSCAN returned an odd number of strings: %s", calls, argv, v)
			}
		}
		for i := 0; i < len(items); i += step {
			if items[i].K != kit.KBulk || (step == 2 && items[i+1].K != kit.KBulk) {
				return fmt.Errorf("call %d %v: element %d of the reply is not a bulk string: %s", calls, argv, i, v)
			}
			s := returned[items[i].S]
			if s == nil {
				s = &seen{first: calls, vals: map[string]bool{}}
				returned[items[i].S] = s
			}
			if step == 2 {
				s.vals[items[i+1].S] = true
			}
			total++
		}
		trace = append(trace, c17Call{In: cursor, Out: next, N: len(items) / step, Live: len(w.live)})
		calls++
		if next == "0" {
			break
		}
		if calls >= c17HardCap {
			return fmt.Errorf("iteration did not terminate within %d calls (%d calls after the last mutation, %d elements live): %s",
				c17HardCap, sinceStop, len(w.live), c17Trace(trace))
		}
		if applied < len(c.Batches) {
			if quiet < c.Batches[applied].Skip {
				quiet++
			} else {
				if err := w.apply(c.Batches[applied], c.Stable); err != nil {
					return err
				}
				applied++
				quiet = 0
			}
		} else {
			if nFinal < 0 {
				nFinal = len(w.live)
			}
			sinceStop++
			if sinceStop > nFinal*4+1000 {
				return fmt.Errorf("collection stable (%d elements) for %d calls and the iteration has not ended: %s",
					nFinal, sinceStop, c17Trace(trace))
			}
		}
		cursor = next
	}

	// completeness: everything present from start to end (and matching) was returned at least once
	nAlways := 0
	var missing []string
	for name := range w.always {
		if !c.matches(name) {
			continue
		}
		nAlways++
		if returned[name] == nil {
			missing = append(missing, name)
		}
	}
	if len(missing) > 0 {
		sort.Strings(missing)
		show := missing
		if len(show) > 12 {
			show = show[:12]
		}
		return fmt.Errorf("%d of %d elements present during the whole iteration were never returned, e.g. %v; %d calls, %d batches applied in between, live at end %d; calls: %s",
			len(missing), nAlways, show, calls, applied, len(w.live), c17Trace(trace))
	}
	// nothing invented, filters respected, values genuine
	for name, s := range returned {
		held, ok := w.during[name]
		if !ok {
			return fmt.Errorf("%q returned (first by call %d) but it was absent during the whole iteration; calls: %s", name, s.first, c17Trace(trace))
		}
		if !c.matches(name) {
			return fmt.Errorf("%q returned (first by call %d) but it does not pass MATCH %q TYPE %q (its type: %s)", name, s.first, c.Match, c.Type, c17TypeOf(name))
		}
		for val := range s.vals {
			if !held[val] {
				return fmt.Errorf("HSCAN returned value %q for field %q which only held %v during the iteration", val, name, c17KeysOf(held))
			}
		}
	}

	// evidence
	st.Class("kind:" + c.Kind)
	st.Class("count:" + strconv.Itoa(c.Count))
	st.Class("match:" + c17MatchKind(c.Match))
	if c.Kind == "keys" {
		if c.Type == "" {
			st.Class("type:none")
		} else {
			st.Class("type:" + c.Type)
		}
	}
	switch {
	case w.grew && w.shrank:
		st.Class("live-count:grew+shrank")
	case w.grew:
		st.Class("live-count:grew")
	case w.shrank:
		st.Class("live-count:shrank")
	default:
		st.Class("live-count:same-class")
	}
	switch {
	case applied == 0:
		st.Class("batches-applied:0")
	case applied < 4:
		st.Class("batches-applied:1-3")
	default:
		st.Class("batches-applied:4+")
	}
	switch {
	case calls == 1:
		st.Class("calls:1")
	case calls <= 10:
		st.Class("calls:2-10")
	case calls <= 100:
		st.Class("calls:11-100")
	default:
		st.Class("calls:101+")
	}
	if w.churned > 0 {
		st.Class("pool-churn-during-iteration")
	}
	if total > len(returned) {
		st.Class("duplicates-returned")
	}
	if nAlways >= 8 {
		st.Class("always-present>=8")
	}
	if w.grew && w.shrank && nAlways >= 8 {
		cj, _ := json.Marshal(c)
		st.NonTrivial(string(cj), c17Sample{Kind: c.Kind, Stable: c.Stable, Vol0: c.Vol0, Count: c.Count, Match: c.Match,
			Type: c.Type, Pre: len(c.Pre), Batches: len(c.Batches), Applied: applied, Calls: calls, Always: nAlways,
			Distinct: len(returned), Total: total, Churned: w.churned, LiveEnd: len(w.live)})
	}
	return nil
}

func c17KeysOf(m map[string]bool) []string {
	out := make([]string, 0, len(m))
	for k := range m {
		out = append(out, k)
	}
	sort.Strings(out)
	return out
}

func TestC17(t *testing.T) {
	kit.Check(t, kit.Prop[C17Case]{ID: "C17", Gen: c17Gen, Run: c17Run})
}

// ---- part B: the collection becomes empty (or is replaced) in the middle of an iteration -------------------

type C17BCase struct {
	Kind   string `json:"kind"` // keys, hash, set
	N      int    `json:"n"`
	Count  int    `json:"count"`
	Calls  int    `json:"calls"`  // calls made before the collection is emptied
	How    int    `json:"how"`    // 0 delete every element one by one, 1 DEL of the container / FLUSHDB, 2 FLUSHALL, 3 expire the container
	Refill int    `json:"refill"` // new elements added right after emptying
	Salt   int    `json:"salt"`
}

func c17BGen(t *rapid.T) C17BCase {
	return C17BCase{Kind: pick(t, "kind", "keys", "hash", "set"), N: rapid.IntRange(12, 90).Draw(t, "n"), Count: pick(t, "count", 1, 2, 3, 5), Calls: rapid.IntRange(1, 6).Draw(t, "calls"),
		How: rapid.IntRange(0, 3).Draw(t, "how"), Refill: pick(t, "refill", 0, 0, 1, 5, 30), Salt: pick(t, "salt", c17GoodSalts()...)}
}

func c17BRun(c C17BCase, st *kit.Stats) error {
	emu := kit.StartEmu("")
	defer emu.Stop()
	conn := emu.Dial()
	name := func(p string, i int) string { return fmt.Sprintf("%s%d.%d", p, i, c.Salt) }
	scan := func(cur string) []string {
		switch c.Kind {
		case "hash":
			return []string{"HSCAN", "box", cur, "COUNT", strconv.Itoa(c.Count)}
		case "set":
			return []string{"SSCAN", "box", cur, "COUNT", strconv.Itoa(c.Count)}
		}
		return []string{"SCAN", cur, "COUNT", strconv.Itoa(c.Count)}
	}
	add := func(p string, i int) {
		switch c.Kind {
		case "hash":
			conn.Do("HSET", "box", name(p, i), "v")
		case "set":
			conn.Do("SADD", "box", name(p, i))
		default:
			conn.Do("SET", name(p, i), "v")
		}
	}
	for i := 0; i < c.N; i++ {
		add("s", i)
	}
	cursor := "0"
	for i := 0; i < c.Calls; i++ {
		v, err := conn.Do(scan(cursor)...)
		if err != nil || v.K != kit.KArr || len(v.A) != 2 {
			return fmt.Errorf("%v: %v %v", scan(cursor), v, err)
		}
		cursor = v.A[0].S
		if cursor == "0" {
			return nil // iteration finished before the collection could be emptied
		}
	}
	// empty the collection
	switch c.How {
	case 0:
		for i := 0; i < c.N; i++ {
			switch c.Kind {
			case "hash":
				conn.Do("HDEL", "box", name("s", i))
			case "set":
				conn.Do("SREM", "box", name("s", i))
			default:
				conn.Do("DEL", name("s", i))
			}
		}
	case 1:
		if c.Kind == "keys" {
			conn.Do("FLUSHDB")
		} else {
			conn.Do("DEL", "box")
		}
	case 2:
		conn.Do("FLUSHALL")
	default:
		if c.Kind == "keys" {
			for i := 0; i < c.N; i++ {
				conn.Do("PEXPIREAT", name("s", i), "1000000000000")
			}
		} else {
			conn.Do("PEXPIREAT", "box", "1000000000000")
		}
	}
	for i := 0; i < c.Refill; i++ {
		add("r", i)
	}
	st.Class(fmt.Sprintf("emptied-by:%d", c.How))
	// the iteration must still end, and may only return elements that exist now
	for i := 0; i < c.N*4+200; i++ {
		v, err := conn.Do(scan(cursor)...)
		if err != nil || v.K != kit.KArr || len(v.A) != 2 {
			return fmt.Errorf("%v after the collection was emptied: %v %v", scan(cursor), v, err)
		}
		step := 1
		if c.Kind == "hash" {
			step = 2
		}
		for j := 0; j < len(v.A[1].A); j += step {
			if e := v.A[1].A[j].S; !strings.HasPrefix(e, "r") {
				return fmt.Errorf("%v returned %q, which was removed before this call", scan(cursor), e)
			}
		}
		cursor = v.A[0].S
		if cursor == "0" {
			st.NonTrivial(fmt.Sprintf("%+v", c), c)
			return nil
		}
	}
	return fmt.Errorf("the collection was emptied in the middle of an iteration (%d elements, emptied after %d calls, %d refilled); feeding the cursor back %d more times never returned 0 (stuck at %s)", c.N, c.Calls, c.Refill, c.N*4+200, cursor)
}

func TestC17B(t *testing.T) {
	kit.Check(t, kit.Prop[C17BCase]{ID: "C17B", Gen: c17BGen, Run: c17BRun})
}

// TestC04Scan / TestC05Scan: the C17 search over hashes (HSCAN) and sets (SSCAN) only, run as part of C04 and C05.
func TestC04Scan(t *testing.T) {
	kit.Check(t, kit.Prop[C17Case]{ID: "C04Scan", Gen: func(t *rapid.T) C17Case { return c17GenKind(t, "hash") }, Run: c17Run})
}

func TestC05Scan(t *testing.T) {
	kit.Check(t, kit.Prop[C17Case]{ID: "C05Scan", Gen: func(t *rapid.T) C17Case { return c17GenKind(t, "set") }, Run: c17Run})
}
