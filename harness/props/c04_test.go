package props

import (
	"strconv"
	"testing"

	"pgregory.net/rapid"

	"verifharness/kit"
	"verifharness/model"
)

// C04 — hash commands behave as Redis for every sequence.

func c04Key(t *rapid.T) string {
	return pick(t, "key", "h1", "h1", "h1", "h2", "h2", "str", "lst", "missing")
}

func c04Field(t *rapid.T) string {
	if rapid.IntRange(0, 40).Draw(t, "aligned") == 0 {
		// names of 8 / 16 bytes that differ in one bit of a block's first byte (table hash block handling)
		return pick(t, "al", "0abcdefg", "8abcdefg", "0abcdefgABCDEFGH", "8abcdefgABCDEFGH", "abcdefgh", "abcdefgH")
	}
	if rapid.IntRange(0, 30).Draw(t, "emptyname") == 0 {
		return "" // the empty string is a field name like any other
	}
	if rapid.IntRange(0, 3).Draw(t, "hot") > 0 {
		return "f" + strconv.Itoa(rapid.IntRange(0, 5).Draw(t, "hotf"))
	}
	return "f" + strconv.Itoa(rapid.IntRange(0, 299).Draw(t, "f"))
}

func c04Hot(t *rapid.T) string { return "f" + strconv.Itoa(rapid.IntRange(0, 2).Draw(t, "hot3")) }

var c04Vals = []string{"", "0", "1", "-1", "5", "-5", "9223372036854775807", "-9223372036854775808", "9223372036854775806", "-9223372036854775807",
	"4611686018427387904", "-4611686018427387904", "abc", "1.5", "0.25", " 3", "v"}

var c04Incs = []string{"0", "1", "-1", "5", "-5", "9223372036854775807", "-9223372036854775808", "9223372036854775806", "-9223372036854775807",
	"4611686018427387904", "-4611686018427387904", "4611686018427387903"}

func c04Step(t *rapid.T) kit.Argv {
	k := c04Key(t)
	cn := func(s string) string { return randCase(t, s) }
	switch weighted(t, "cmd", []int{8, 3, 4, 5, 4, 3, 3, 3, 3, 3, 5, 12, 4, 5, 4, 9, 1, 1}) {
	case 0:
		a := []string{cn(pick(t, "hset", "HSET", "HSET", "HMSET")), k}
		for i := rapid.IntRange(1, 3).Draw(t, "n"); i > 0; i-- {
			a = append(a, c04Field(t), pick(t, "v", c04Vals...))
		}
		return kit.A(a...)
	case 1:
		return kit.A(cn("HSETNX"), k, c04Field(t), pick(t, "v", c04Vals...))
	case 2:
		return kit.A(cn("HGET"), k, c04Field(t))
	case 3:
		a := []string{cn("HMGET"), k}
		for i := rapid.IntRange(1, 4).Draw(t, "n"); i > 0; i-- {
			a = append(a, c04Field(t))
		}
		return kit.A(a...)
	case 4:
		return kit.A(cn(pick(t, "all", "HGETALL", "HKEYS", "HVALS")), k)
	case 5:
		return kit.A(cn("HLEN"), k)
	case 6:
		return kit.A(cn("HEXISTS"), k, c04Field(t))
	case 7:
		return kit.A(cn("HSTRLEN"), k, c04Field(t))
	case 8, 9:
		a := []string{cn("HDEL"), k}
		for i := rapid.IntRange(1, 3).Draw(t, "n"); i > 0; i-- {
			a = append(a, c04Field(t))
		}
		return kit.A(a...)
	case 10:
		return kit.A(cn("HINCRBYFLOAT"), k, c04Field(t), pick(t, "f", "1", "0.5", "-0.25", "1.5", "-3", "abc", "nan", "inf", ""))
	case 11:
		// HINCRBY biased towards integer-valued fields: set then increment is common via hot fields
		return kit.A(cn("HINCRBY"), pick(t, "hk2", "h1", "h1", "h2", k), c04Hot(t), pick(t, "inc", c04Incs...))
	case 12:
		a := []string{cn("HRANDFIELD"), k}
		if rapid.Bool().Draw(t, "cnt") {
			cnt := pick(t, "c", "0", "1", "-1", "2", "-2", "3", "-5", "7", "10", "-20", "400", "-400")
			if rapid.IntRange(0, 3).Draw(t, "hugecnt") == 0 {
				cnt = pick(t, "hc", "2147483647", "2147483648", "4294967296", "9223372036854775807")
			}
			a = append(a, cnt)
			if rapid.Bool().Draw(t, "wv") {
				a = append(a, cn("WITHVALUES"))
			}
		}
		return kit.A(a...)
	case 13:
		// bulk insert: forces the one-item-per-bucket table to double (several times)
		a := []string{"HSET", pick(t, "hk", "h1", "h2")}
		base := rapid.IntRange(0, 200).Draw(t, "base")
		n := rapid.IntRange(20, 120).Draw(t, "n")
		for i := 0; i < n; i++ {
			f := (base + i) % 300
			a = append(a, "f"+strconv.Itoa(f), "v"+strconv.Itoa(f))
		}
		return kit.A(a...)
	case 14:
		// bulk delete: most fields go, the table may halve
		a := []string{"HDEL", pick(t, "hk", "h1", "h2")}
		keepMod := rapid.IntRange(2, 40).Draw(t, "keep")
		off := rapid.IntRange(0, 39).Draw(t, "off")
		for f := 0; f < 300; f++ {
			if (f+off)%keepMod != 0 {
				a = append(a, "f"+strconv.Itoa(f))
			}
		}
		return kit.A(a...)
	case 15:
		// integer-valued hot field, so HINCRBY meets every sign combination
		return kit.A("HSET", pick(t, "hk", "h1", "h2"), c04Hot(t), pick(t, "iv", c04Incs...))
	case 16:
		return goneStep(t, k)
	default:
		return kit.A(cn("HSET"), k, c04Field(t)) // wrong arity
	}
}

// c04Sparse: a handful of fields from a wide name space (hash collisions make the one-item-per-bucket
// table 32, 64 ... buckets wide), add/remove cycles that drive the table's removal counter to its shrink
// threshold, then reads and deletes that run while the table is rehashed.
func c04Sparse(t *rapid.T) []kit.Argv {
	name := func() string { return "w" + strconv.Itoa(rapid.IntRange(0, 199).Draw(t, "w")) }
	k := pick(t, "sk", "h1", "h2")
	a := []string{"HSET", k}
	var fields []string
	for i := rapid.IntRange(2, 9).Draw(t, "nf"); i > 0; i-- {
		f := name()
		fields = append(fields, f)
		a = append(a, f, "v"+f)
	}
	if rapid.IntRange(0, 2).Draw(t, "tail") == 0 {
		x, y := tailPair(t)
		fields = append(fields, x, y)
		a = append(a, x, "v"+x, y, "v"+y)
	}
	out := []kit.Argv{kit.A("DEL", k), kit.A(a...)}
	for phase := rapid.IntRange(1, 4).Draw(t, "phases"); phase > 0; phase-- {
		for i := churnCount(t); i > 0; i-- {
			out = append(out, kit.A("HSET", k, "churn", "1"), kit.A("HDEL", k, "churn"))
		}
		out = append(out, c04SparseOps(t, k, fields, name)...)
	}
	return out
}

func c04SparseOps(t *rapid.T, k string, fields []string, name func() string) []kit.Argv {
	var out []kit.Argv
	for i := rapid.IntRange(1, 3).Draw(t, "after"); i > 0; i-- {
		out = append(out, kit.A(pick(t, "sparseop", []string{"HGETALL", k}, []string{"HDEL", k, pick(t, "df", fields...), pick(t, "df2", fields...)}, []string{"HLEN", k},
			[]string{"HKEYS", k}, []string{"HRANDFIELD", k, "-5", "WITHVALUES"}, []string{"HRANDFIELD", k, "20"}, []string{"HSET", k, name(), "x"}, []string{"HMGET", k, fields[0], "nosuch"},
			[]string{"COPY", k, "hcopy", "REPLACE"}, []string{"HGETALL", "hcopy"})...))
	}
	return out
}

func c04Gen(t *rapid.T) SeqCase {
	steps := []kit.Argv{kit.A("SET", "str", "v"), kit.A("RPUSH", "lst", "x")}
	n := rapid.IntRange(8, 45).Draw(t, "steps")
	for i := 0; i < n; i++ {
		if rapid.IntRange(0, 39).Draw(t, "sparse") == 0 {
			steps = append(steps, c04Sparse(t)...)
			continue
		}
		if rapid.IntRange(0, 14).Draw(t, "gone") == 0 {
			steps = append(steps, afterGone(t, []string{"h1", "h2"}, c04Step)...)
			continue
		}
		if rapid.IntRange(0, 19).Draw(t, "retype") == 0 {
			steps = append(steps, afterRetype(t, []string{"h1", "h2"}, c04Step)...)
			continue
		}
		steps = append(steps, c04Step(t))
	}
	return SeqCase{Steps: steps}
}

func hashLen(db *model.DB, k string) int {
	if o := db.Keys[k]; o != nil && o.T == model.THash {
		return len(o.Hash)
	}
	return 0
}

func c04Observe(argv []string, before *model.DB, exp model.Exp, st *kit.Stats, flags map[string]int) {
	name := upper(argv[0])
	st.Class("cmd:" + name)
	if len(argv) < 2 {
		return
	}
	n := hashLen(before, argv[1])
	if n > flags["peak:"+argv[1]] {
		flags["peak:"+argv[1]] = n
	}
	// size classes 16,32,64,... crossed upwards / downwards
	cls := 0
	for x := 16; x < n; x *= 2 {
		cls++
	}
	key := "cls:" + argv[1]
	if prev, ok := flags[key]; ok && prev != cls {
		flags["sizechanges"]++
		st.Class("size-class-change")
	}
	flags[key] = cls
	if name == "HINCRBY" && len(argv) == 4 && !exp.IsErr() || name == "HINCRBY" && exp.IsErr() {
		if o := before.Keys[argv[1]]; o != nil && o.T == model.THash {
			if old, ok := o.Hash[argv[2]]; ok {
				ov, e1 := strconv.ParseInt(old, 10, 64)
				dv, e2 := strconv.ParseInt(argv[3], 10, 64)
				if e1 == nil && e2 == nil {
					if (ov < 0) != (dv < 0) && ov != 0 && dv != 0 {
						flags["signs"]++
						st.Class("hincrby-opposite-signs")
					}
					if exp.IsErr() {
						st.Class("hincrby-overflow")
						flags["signs"]++
					}
				}
			}
		}
	}
}

func c04Run(c SeqCase, st *kit.Stats) error {
	flags := map[string]int{}
	err := runSeq(c, st, seqHooks{observe: c04Observe}, flags)
	if err == nil && (flags["sizechanges"] >= 2 || flags["signs"] > 0) {
		st.NonTrivial(c.Canon(), c.Sample())
	}
	return err
}

func TestC04(t *testing.T) {
	kit.Check(t, kit.Prop[SeqCase]{ID: "C04", Gen: c04Gen, Run: c04Run})
}
