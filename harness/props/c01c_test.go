package props

import (
	"fmt"
	"strconv"
	"strings"
	"testing"
	"time"

	"pgregory.net/rapid"

	"verifharness/kit"
)

// C01 part C — segment lengths that repeat.
//
// A command arrives in two segments; the bytes that follow it in the second segment are complete commands
// whose total length equals the length of the first segment. Whatever the server remembers about the
// input it could not parse yet ("so many bytes were pending"), the same number now describes input that
// is complete. Every command must be answered without the client sending anything further.

type C01CCase struct {
	ValLen int   `json:"val_len"` // length of the value of the long first command
	After  []int `json:"after"`   // the complete commands that follow it: 0 PING 1 ECHO x 2 GET k 3 SET k v 4 INCR n
	Before int   `json:"before"`  // complete commands sent (and answered) before
	Pause  int   `json:"pause_ms"`
	Proto  int   `json:"proto"`
}

func c01CGen(t *rapid.T) C01CCase {
	c := C01CCase{ValLen: pick(t, "vallen", 40, 100, 300, 5000, 9000), Before: rapid.IntRange(0, 2).Draw(t, "before"), Pause: pick(t, "pause", 1, 3, 10), Proto: pick(t, "proto", 2, 3)}
	for n := rapid.IntRange(1, 3).Draw(t, "n"); n > 0; n-- {
		c.After = append(c.After, rapid.IntRange(0, 4).Draw(t, "after"))
	}
	return c
}

func c01CRun(c C01CCase, st *kit.Stats) error {
	emu := kit.StartEmu("")
	defer emu.Stop()
	conn := emu.Dial()
	if c.Proto == 3 {
		conn.Hello3()
	}
	for i := 0; i < c.Before; i++ {
		if v, err := conn.Do("ECHO", "warm-up"); err != nil || v.S != "warm-up" {
			return fmt.Errorf("ECHO: %v %v", v, err)
		}
	}
	// a command whose last argument is empty, with the segment ending right after the "$0\r\n" header, in the
	// middle of it, and right before it
	for _, argv := range [][]string{{"ECHO", ""}, {"SET", "e", ""}, {"RPUSH", "el", "a", ""}, {"APPEND", "e", ""}} {
		enc := kit.EncodeCmd(argv...)
		for _, back := range []int{2, 3, 6} { // bytes of the frame that arrive later: CRLF / 0 CR LF ... / the whole $0 header and CRLF
			conn.Write(enc[:len(enc)-back])
			time.Sleep(time.Duration(c.Pause) * time.Millisecond)
			conn.Write(enc[len(enc)-back:])
			if v, err := conn.Read(3 * time.Second); err != nil || v.IsErr() {
				return fmt.Errorf("%q with the last %d bytes of the frame in a second segment: %v %v", argv, back, v, err)
			}
		}
	}
	first := kit.EncodeCmd("SET", "k", strings.Repeat("v", c.ValLen))
	var rest []byte
	var want []string
	for i, a := range c.After {
		switch a {
		case 0:
			rest = append(rest, kit.EncodeCmd("PING")...)
			want = append(want, "PONG")
		case 1:
			rest = append(rest, kit.EncodeCmd("ECHO", "e"+strconv.Itoa(i))...)
			want = append(want, "e"+strconv.Itoa(i))
		case 2:
			rest = append(rest, kit.EncodeCmd("GET", "other")...)
			want = append(want, "(nil)")
		case 3:
			rest = append(rest, kit.EncodeCmd("SET", "k2", "w")...)
			want = append(want, "OK")
		default:
			rest = append(rest, kit.EncodeCmd("INCR", "n")...)
			want = append(want, "(int)")
		}
	}
	l := len(rest)
	if l >= len(first) {
		return nil // the followers are longer than the first command: no cut inside it has their length
	}
	conn.Write(first[:l])
	time.Sleep(time.Duration(c.Pause) * time.Millisecond)
	conn.Write(append(append([]byte(nil), first[l:]...), rest...))
	if v, err := conn.Read(3 * time.Second); err != nil || !kit.Equal(v, kit.Simple("OK")) {
		return fmt.Errorf("SET (sent as %d + %d bytes) replied %v %v", l, len(first)-l, v, err)
	}
	for i, w := range want {
		v, err := conn.Read(3 * time.Second)
		if err != nil {
			return fmt.Errorf("a %d-byte command arrived as %d bytes, a pause, and the remaining %d bytes together with %d complete command(s) of %d bytes in total: the reply to follower %d was not sent within 3 s although nothing more is owed by the client: %v", len(first), l, len(first)-l, len(c.After), l, i, err)
		}
		ok := false
		switch w {
		case "(nil)":
			ok = v.K == kit.KNil
		case "(int)":
			ok = v.K == kit.KInt
		default:
			ok = v.S == w
		}
		if !ok {
			return fmt.Errorf("follower %d: reply %s, want %s", i, v, w)
		}
	}
	if v, err := conn.Do("GET", "k"); err != nil || len(v.S) != c.ValLen {
		return fmt.Errorf("GET k after the split SET: %d bytes %v", len(v.S), err)
	}
	st.Class(fmt.Sprintf("first-segment:%d-bytes", l))
	st.NonTrivial(fmt.Sprintf("%+v", c), c)
	return nil
}

func TestC01C(t *testing.T) {
	kit.Check(t, kit.Prop[C01CCase]{ID: "C01C", Gen: c01CGen, Run: c01CRun})
}
