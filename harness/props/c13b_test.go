package props

import (
	"fmt"
	"strconv"
	"strings"
	"sync"
	"testing"
	"time"

	"pgregory.net/rapid"

	"verifharness/kit"
)

// C13 part B — several connections sending hostile input at the same time.
//
// 2-8 connections of the child-process emulator each send a drawn list of well-formed commands - valid shapes
// with hostile arguments, any handler name in random spelling with random arguments, unknown names - as fast
// as they can. Whatever one connection sends, the process survives and every connection gets one reply per
// command: state that the dispatcher shares between connections must stand concurrent use.

type C13BCase struct {
	Conns [][]kit.Argv `json:"conns"`
}

func c13BGen(t *rapid.T) C13BCase {
	var c C13BCase
	for n := rapid.IntRange(2, 8).Draw(t, "conns"); n > 0; n-- {
		var cmds []kit.Argv
		for m := rapid.IntRange(5, 40).Draw(t, "cmds"); m > 0; m-- {
			var a kit.Argv
			switch rapid.IntRange(0, 3).Draw(t, "kind") {
			case 0:
				a = c13Structured(t)
			case 1:
				a = kit.A(randCase(t, pick(t, "unk", "nosuchcommand", "getx", "flushal", "se t", "", "PINGG", "hgetal"))+rapid.StringMatching("[a-zA-Z]{0,3}").Draw(t, "sfx"), "x")
			default:
				a = c13Template(t)
				if len(a) > 0 && len(a[0]) > 0 && a[0][0] != '@' {
					a[0] = kit.S(randCase(t, string(a[0])))
				}
			}
			name := strings.ToLower(string(a[0]))
			if len(a) == 0 || name == "" || a[0][0] == '@' || c13Blocking[name] || name == "quit" || name == "client" || name == "flushall" || name == "multi" || name == "select" || name == "hello" {
				a = kit.A(randCase(t, "echo"), "filler")
			}
			// offsets that legitimately make the server build values of hundreds of megabytes are left to the
			// single-connection check: here they would only make every other connection wait for minutes
			for i := range a {
				if n, err := strconv.ParseUint(strings.TrimPrefix(string(a[i]), "#"), 10, 64); err == nil && n >= 1<<24 && n < 1<<34 {
					a[i] = "1048576"
				}
			}
			cmds = append(cmds, a)
		}
		c.Conns = append(c.Conns, cmds)
	}
	return c
}

func c13BRun(c C13BCase, st *kit.Stats) error {
	h, err := c13GetHost()
	if err != nil {
		return fmt.Errorf("harness: %v", err)
	}
	setup, err := kit.Dial(h.addr)
	if err != nil {
		return fmt.Errorf("harness: dial: %v", err)
	}
	for _, s := range c13Setup {
		setup.Do(s...)
	}
	setup.Close()
	var wg sync.WaitGroup
	errs := make(chan error, len(c.Conns))
	start := make(chan struct{})
	for i, cmds := range c.Conns {
		conn, err := kit.Dial(h.addr)
		if err != nil {
			return fmt.Errorf("harness: dial: %v", err)
		}
		conn.Proto = 0
		wg.Add(1)
		go func(i int, cmds []kit.Argv) {
			defer wg.Done()
			defer conn.Close()
			<-start
			for j, a := range cmds {
				if _, err := conn.DoT(8*time.Second, a.Strs()...); err != nil {
					errs <- fmt.Errorf("connection %d, command %d %s (sent while %d other connections were sending their own): no well-formed reply: %v", i, j, a, len(c.Conns)-1, err)
					return
				}
			}
		}(i, cmds)
	}
	close(start)
	wg.Wait()
	select {
	case <-h.exitC:
	case <-time.After(2 * time.Millisecond):
	}
	if h.isDead() {
		return fmt.Errorf("the emulator process died while %d connections were sending commands at the same time: %s", len(c.Conns), h.crashText())
	}
	select {
	case err := <-errs:
		select {
		case <-h.exitC:
		case <-time.After(300 * time.Millisecond):
		}
		if h.isDead() {
			return fmt.Errorf("the emulator process died while %d connections were sending commands at the same time: %s", len(c.Conns), h.crashText())
		}
		return err
	default:
	}
	n := 0
	for _, x := range c.Conns {
		n += len(x)
	}
	st.ClassN("commands-sent-concurrently", n)
	st.NonTrivial(fmt.Sprintf("%d|%d|%s", len(c.Conns), n, c.Conns[0][0]), map[string]any{"connections": len(c.Conns), "commands": n, "first": c.Conns[0][0].String()})
	return nil
}

func TestC13B(t *testing.T) {
	kit.Check(t, kit.Prop[C13BCase]{ID: "C13B", Gen: c13BGen, Run: c13BRun})
}
