// Package props holds one executable property per file (TestCxx), built on kit and model.
package props

import (
	"strconv"
	"sync"
	"fmt"
	"sort"
	"strings"
	"time"

	"pgregory.net/rapid"

	"verifharness/kit"
	"verifharness/model"
)

func nowMs() int64 { return time.Now().UnixMilli() }

// ---- drawing helpers ----------------------------------------------------------------------------------

func pick[T any](t *rapid.T, label string, xs ...T) T {
	return xs[rapid.IntRange(0, len(xs)-1).Draw(t, label)]
}

// weighted picks an index according to weights.
func weighted(t *rapid.T, label string, w []int) int {
	tot := 0
	for _, x := range w {
		tot += x
	}
	r := rapid.IntRange(0, tot-1).Draw(t, label)
	for i, x := range w {
		if r < x {
			return i
		}
		r -= x
	}
	return len(w) - 1
}

// randCase randomises the letter case of a keyword.
func randCase(t *rapid.T, s string) string {
	switch rapid.IntRange(0, 3).Draw(t, "case") {
	case 0:
		return strings.ToUpper(s)
	case 1:
		return strings.ToLower(s)
	case 2:
		b := []byte(strings.ToLower(s))
		for i := range b {
			if rapid.Bool().Draw(t, "uc") && b[i] >= 'a' && b[i] <= 'z' {
				b[i] -= 32
			}
		}
		return string(b)
	}
	return s
}

// ---- state dump ------------------------------------------------------------------------------------------

// keyDump is the observable state of one key.
type keyDump struct {
	Type  string
	Value string // canonical text
	PExp  int64  // PEXPIRETIME reply (-1 none)
}

type dbDump struct {
	Keys   map[string]keyDump
	DBSize int64
}

func canonList(ss []string) string {
	var sb strings.Builder
	for _, s := range ss {
		fmt.Fprintf(&sb, "%d:%s,", len(s), s)
	}
	return sb.String()
}

func canonSorted(ss []string) string {
	c := append([]string(nil), ss...)
	sort.Strings(c)
	return canonList(c)
}

func canonPairs(flat []string) string {
	var ps []string
	for i := 0; i+1 < len(flat); i += 2 {
		ps = append(ps, fmt.Sprintf("%d:%s=%d:%s", len(flat[i]), flat[i], len(flat[i+1]), flat[i+1]))
	}
	sort.Strings(ps)
	return strings.Join(ps, ",")
}

// dumpEmu reads the whole selected database through the wire.
func dumpEmu(c *kit.Conn) (dbDump, error) {
	d := dbDump{Keys: map[string]keyDump{}}
	v, err := c.Do("KEYS", "*")
	if err != nil {
		return d, fmt.Errorf("KEYS *: %v", err)
	}
	keys, ok := v.Strings()
	if !ok {
		return d, fmt.Errorf("KEYS * replied %s", v)
	}
	for _, k := range keys {
		if _, dup := d.Keys[k]; dup {
			return d, fmt.Errorf("KEYS * lists %q twice", k)
		}
		tv, err := c.Do("TYPE", k)
		if err != nil {
			return d, fmt.Errorf("TYPE: %v", err)
		}
		kd := keyDump{Type: tv.S}
		var vv kit.Value
		switch tv.S {
		case "string":
			vv, err = c.Do("GET", k)
			kd.Value = vv.S
			if err == nil && vv.K != kit.KBulk {
				err = fmt.Errorf("GET %q on a string key replied %s", k, vv)
			}
		case "list":
			vv, err = c.Do("LRANGE", k, "0", "-1")
			if err == nil {
				ss, ok := vv.Strings()
				if !ok {
					err = fmt.Errorf("LRANGE %q replied %s", k, vv)
				}
				kd.Value = canonList(ss)
			}
		case "hash":
			vv, err = c.Do("HGETALL", k)
			if err == nil {
				ss, ok := vv.Strings()
				if !ok || len(ss)%2 != 0 {
					err = fmt.Errorf("HGETALL %q replied %s", k, vv)
				}
				kd.Value = canonPairs(ss)
			}
		case "set":
			vv, err = c.Do("SMEMBERS", k)
			if err == nil {
				ss, ok := vv.Strings()
				if !ok {
					err = fmt.Errorf("SMEMBERS %q replied %s", k, vv)
				}
				kd.Value = canonSorted(ss)
			}
		default:
			err = fmt.Errorf("key %q listed by KEYS has TYPE %s", k, tv)
		}
		if err != nil {
			return d, err
		}
		pv, err := c.Do("PEXPIRETIME", k)
		if err != nil {
			return d, fmt.Errorf("PEXPIRETIME: %v", err)
		}
		if pv.K != kit.KInt {
			return d, fmt.Errorf("PEXPIRETIME %q replied %s", k, pv)
		}
		kd.PExp = pv.I
		d.Keys[k] = kd
	}
	sv, err := c.Do("DBSIZE")
	if err != nil {
		return d, fmt.Errorf("DBSIZE: %v", err)
	}
	d.DBSize = sv.I
	return d, nil
}

func modelValue(o *model.Obj) string {
	switch o.T {
	case model.TString:
		return o.Str
	case model.TList:
		return canonList(o.List)
	case model.THash:
		flat := []string{}
		for k, v := range o.Hash {
			flat = append(flat, k, v)
		}
		return canonPairs(flat)
	case model.TSet:
		ms := []string{}
		for m := range o.Set {
			ms = append(ms, m)
		}
		return canonSorted(ms)
	}
	return ""
}

// compareDump checks the emulator's observable state against the model.
func compareDump(d dbDump, db *model.DB, tm model.Time) error {
	db.Sweep(tm)
	for k, o := range db.Keys {
		kd, ok := d.Keys[k]
		if !ok {
			return fmt.Errorf("key %q (%s) exists in the model but not in the emulator", k, o.T)
		}
		if kd.Type != o.T.String() {
			return fmt.Errorf("key %q has type %s, model says %s", k, kd.Type, o.T)
		}
		if mv := modelValue(o); kd.Value != mv {
			return fmt.Errorf("key %q (%s) holds %q, model says %q", k, o.T, clip(kd.Value), clip(mv))
		}
		if o.HasTTL {
			if kd.PExp < o.DLo || kd.PExp > o.DHi {
				return fmt.Errorf("key %q PEXPIRETIME=%d, model says deadline in [%d,%d]", k, kd.PExp, o.DLo, o.DHi)
			}
		} else if kd.PExp != -1 {
			return fmt.Errorf("key %q PEXPIRETIME=%d, model says no deadline", k, kd.PExp)
		}
	}
	for k, kd := range d.Keys {
		if _, ok := db.Keys[k]; !ok {
			return fmt.Errorf("key %q (%s %q) exists in the emulator but not in the model", k, kd.Type, clip(kd.Value))
		}
	}
	if d.DBSize != int64(len(db.Keys)) {
		return fmt.Errorf("DBSIZE=%d but KEYS * lists %d keys", d.DBSize, len(d.Keys))
	}
	return nil
}

func clip(s string) string {
	if len(s) > 120 {
		return s[:100] + fmt.Sprintf("...(%dB)", len(s))
	}
	return s
}

// ---- sequential model-based runner -----------------------------------------------------------------------

// SeqCase is a single-connection command sequence.
type SeqCase struct {
	Steps []kit.Argv `json:"steps"`
}

func (c SeqCase) Canon() string {
	var sb strings.Builder
	for _, s := range c.Steps {
		for _, a := range s {
			fmt.Fprintf(&sb, "%d:%s ", len(a), a)
		}
		sb.WriteByte('\n')
	}
	return sb.String()
}

func (c SeqCase) Sample() []string {
	out := make([]string, len(c.Steps))
	for i, s := range c.Steps {
		out[i] = s.String()
	}
	return out
}

// seqHooks customises runSeq for one property.
type seqHooks struct {
	// skip returns a known-finding id when the step would trigger a listed finding (step is left out).
	skip func(step []string, db *model.DB) string
	// observe is called after each compared step with the pre-state clone, for classification.
	observe func(step []string, before *model.DB, exp model.Exp, st *kit.Stats, flags map[string]int)
	// noDump disables the per-step dump comparison (still done at the end).
	noDump bool
	// after runs after each compared step (extra invariants read through the wire).
	after func(conn *kit.Conn, db *model.DB, flags map[string]int, st *kit.Stats) error
}

// runSeq executes the case on a fresh emulator and on the model, comparing every reply and the
// complete observable state after every step.
func runSeq(c SeqCase, st *kit.Stats, h seqHooks, flags map[string]int) error {
	emu := kit.StartEmu("")
	defer emu.Stop()
	conn := emu.Dial()
	db := model.NewDB()
	for i, step := range c.Steps {
		argv := step.Strs()
		if h.skip != nil {
			if id := h.skip(argv, db); id != "" {
				st.Exclude(id)
				continue
			}
		}
		// a command whose outcome the model deliberately leaves open (documented don't-care corner) is
		// not executed at all, so that model and emulator cannot drift apart
		if n := nowMs(); db.Clone().Exec(argv, model.Time{Lo: n, Hi: n}).Kind == model.EAny {
			st.Class("dont-care-skipped")
			continue
		}
		var before *model.DB
		if h.observe != nil {
			before = db.Clone()
		}
		t0 := nowMs()
		got, err := conn.Do(argv...)
		t1 := nowMs()
		if err != nil {
			return fmt.Errorf("step %d %s: no well-formed reply: %v", i, step, err)
		}
		tm := model.Time{Lo: t0, Hi: t1}
		exp := db.Exec(argv, tm)
		if db.Ambiguous {
			st.Class("ambiguous-time")
			return nil
		}
		if err := exp.Match(got); err != nil {
			return fmt.Errorf("step %d %s: %v", i, step, err)
		}
		if h.observe != nil {
			h.observe(argv, before, exp, st, flags)
		}
		// the add/remove cycles of the scripted sparse-table scenarios only exist to move the table's
		// removal counter: their replies are compared, the full dump is taken after the scenario's real steps
		churn := len(argv) > 1 && (argv[1] == "churn" || (len(argv) == 3 && argv[2] == "churn") || (len(argv) == 4 && argv[2] == "churn" && argv[0] == "HSET")) && i != len(c.Steps)-1
		if churn {
			continue
		}
		if !h.noDump || i == len(c.Steps)-1 {
			t0 = nowMs()
			d, err := dumpEmu(conn)
			t1 = nowMs()
			if err != nil {
				return fmt.Errorf("after step %d %s: state dump failed: %v", i, step, err)
			}
			if err := compareDump(d, db, model.Time{Lo: t0, Hi: t1}); err != nil {
				return fmt.Errorf("after step %d %s (reply %s): %v", i, step, got, err)
			}
		}
		if h.after != nil {
			if err := h.after(conn, db, flags, st); err != nil {
				return fmt.Errorf("after step %d %s (reply %s): %v", i, step, got, err)
			}
		}
	}
	return nil
}

// goneStep removes key k in one of the ways the server distinguishes internally: the entry is taken out
// of the table (DEL), or it stays stored with a deadline that has passed (UNLINK, a non-positive TTL, an
// absolute time in the past). To every client all of them mean "k does not exist".
func goneStep(t *rapid.T, k string) kit.Argv {
	return kit.A(pick(t, "gone", []string{"DEL", k}, []string{"DEL", k}, []string{"UNLINK", k}, []string{"PEXPIREAT", k, "1000"}, []string{"EXPIRE", k, "-1"},
		[]string{"PEXPIRE", k, "0"}, []string{"EXPIREAT", k, "1"})...)
}

// churnCount: how many add/remove cycles of an unrelated element precede the next step. The table of a
// collection counts removals and tries to halve itself when they exceed half its width (16, 32, 64, 128 ...),
// so the interesting counts are the ones around those thresholds, and several phases in a row.
func churnCount(t *rapid.T) int {
	switch weighted(t, "churnkind", []int{3, 3, 3, 2, 1}) {
	case 0:
		return rapid.IntRange(0, 8).Draw(t, "churn")
	case 1:
		return rapid.IntRange(9, 20).Draw(t, "churn")
	case 2:
		return rapid.IntRange(30, 36).Draw(t, "churn")
	case 3:
		return rapid.IntRange(62, 68).Draw(t, "churn")
	}
	return 130
}

var (
	tailOnce   sync.Once
	tailA      []string // names whose table hash ends in ...11111 (last bucket of a 32-bucket table)
	tailB      []string // names whose table hash ends in ...01111 (the bucket before it; same bucket as tailA in a 16-bucket table)
)

// tailPair draws two names that collide in the 16-bucket table and sit in the last two buckets of the
// 32-bucket table (the table index is the bit-reversed low end of the hash; c17Hash mirrors the hash).
func tailPair(t *rapid.T) (string, string) {
	tailOnce.Do(func() {
		for i := 0; i < 6000 && (len(tailA) < 12 || len(tailB) < 12); i++ {
			n := "w" + strconv.Itoa(i)
			switch c17Hash(n) & 31 {
			case 31:
				tailA = append(tailA, n)
			case 15:
				tailB = append(tailB, n)
			}
		}
	})
	return pick(t, "tailA", tailA...), pick(t, "tailB", tailB...)
}

// afterRetype draws one step with mk and first turns the key it names into a value of another type (with or
// without a deadline): the command must fail with WRONGTYPE and leave that value, its deadline and every
// other key exactly as they were.
func afterRetype(t *rapid.T, keys []string, mk func(*rapid.T) kit.Argv) []kit.Argv {
	step := mk(t)
	for _, a := range step[1:] {
		for _, k := range keys {
			if string(a) == k {
				out := []kit.Argv{kit.A("DEL", k), kit.A(pick(t, "retype", []string{"SET", k, "12"}, []string{"RPUSH", k, "x", "y"}, []string{"HSET", k, "f", "1"}, []string{"SADD", k, "m", "n"})...)}
				if rapid.Bool().Draw(t, "retype-ttl") {
					out = append(out, kit.A("PEXPIREAT", k, "4102444800000"))
				}
				return append(out, step)
			}
		}
	}
	return []kit.Argv{step}
}

// afterGone draws one step with mk and puts in front of it steps that make the key(s) it names gone
// (see goneStep): the command then meets a key that no client can see but that may still sit in the table.
func afterGone(t *rapid.T, keys []string, mk func(*rapid.T) kit.Argv) []kit.Argv {
	step := mk(t)
	all := rapid.Bool().Draw(t, "goneall")
	var out []kit.Argv
	seen := map[string]bool{}
	for _, a := range step[1:] {
		for _, k := range keys {
			if string(a) == k && !seen[k] && (all || len(seen) == 0) {
				seen[k] = true
				out = append(out, goneStep(t, k))
			}
		}
	}
	return append(out, step)
}
