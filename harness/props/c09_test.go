package props

import (
	"fmt"
	"sync"
	"testing"
	"time"

	"pgregory.net/rapid"

	"verifharness/kit"
	"verifharness/model"
)

// C09 — MULTI/EXEC: queued, ordered, isolated, all-or-nothing; state resets afterwards.

func c09Data(t *rapid.T) []string {
	k := pick(t, "k", "a", "b", "l", "h", "s")
	return pick(t, "data",
		[]string{"SET", k, pick(t, "v", "1", "x", "10")}, []string{"GET", k}, []string{"INCR", k}, []string{"APPEND", k, "z"}, []string{"DEL", k},
		[]string{"RPUSH", k, "e1", "e2"}, []string{"LPOP", k}, []string{"LRANGE", k, "0", "-1"}, []string{"LLEN", k},
		[]string{"HSET", k, "f", "1"}, []string{"HINCRBY", k, "f", "9223372036854775807"}, []string{"HGETALL", k},
		[]string{"SADD", k, "m"}, []string{"SCARD", k}, []string{"EXISTS", k}, []string{"TYPE", k},
		[]string{"MSET", "a", "5", "b", "6"}, []string{"MGET", "a", "b"}, []string{"RENAME", k, "b"}, []string{"DBSIZE"},
		[]string{"EXPIRE", k, "100000"}, []string{"PERSIST", k}, []string{"PING"}, []string{"ECHO", "hi"},
	)
}

func c09Queued(t *rapid.T) []string {
	switch weighted(t, "q", []int{14, 2, 2, 3, 1, 1, 1, 6}) {
	case 7:
		// any command of the data families, as their own checks draw them: what it replies and does inside EXEC
		// is what it replies and does outside
		return pick(t, "fam", c02Step, c03Step, c04Step, c05Step, c06Keyspace, c06Failing)(t).Strs()
	case 6:
		return []string{"SELECT", pick(t, "qdb", "0", "1", "2")}
	case 0:
		return c09Data(t)
	case 1:
		return pick(t, "rej", []string{"NOSUCHCMD", "x"}, []string{"GET"}, []string{"SET", "a"}, []string{"LPUSH", "l"}, []string{"HSET", "h", "f"}, []string{"FOO"},
			// container commands: an unknown sub-command or a sub-command with the wrong number of arguments is refused just the same
			[]string{"CLIENT", "NOSUCHSUBCOMMAND"}, []string{"CLIENT", "SETNAME"}, []string{"COMMAND", "BOGUS", "x"}, []string{"CLIENT", "GETNAME", "extra"}, []string{"client", "unblock"}, []string{"COMMAND", "GETKEYS"})
	case 2:
		// run-time failures
		return pick(t, "rt", []string{"INCR", "l"}, []string{"LPOP", "a"}, []string{"HGET", "a", "f"}, []string{"INCRBY", "a", "9223372036854775807"}, []string{"LSET", "l", "99", "x"}, []string{"SADD", "a", "m"})
	case 3:
		k := pick(t, "bk", "l", "empty1", "empty2")
		return pick(t, "blk", []string{"BLPOP", k, "empty2", "0"}, []string{"BRPOP", k, "0.5"}, []string{"BLMOVE", k, "l", "LEFT", "RIGHT", "0"}, []string{"BRPOPLPUSH", k, "l", "0"}, []string{"BLMPOP", "0", "2", k, "empty1", "LEFT"})
	case 4:
		return []string{"MULTI"}
	default:
		return []string{"WATCH", "a"}
	}
}

func c09Gen(t *rapid.T) MultiCase {
	c := MultiCase{Conns: 2}
	add := func(conn int, a ...string) { c.Steps = append(c.Steps, MStep{Conn: conn, Argv: kit.A(a...)}) }
	add(0, "RPUSH", "l", "i1", "i2", "i3")
	add(0, "SET", "a", "1")
	txs := rapid.IntRange(1, 4).Draw(t, "txs")
	observer := func() {
		for i := rapid.IntRange(0, 2).Draw(t, "obs"); i > 0; i-- {
			if rapid.IntRange(0, 5).Draw(t, "obsdb") == 0 {
				add(1, "SELECT", pick(t, "odb", "0", "1", "2"))
			}
			add(1, c09Data(t)...)
		}
	}
	for tx := 0; tx < txs; tx++ {
		// outside a transaction
		for i := rapid.IntRange(0, 3).Draw(t, "pre"); i > 0; i-- {
			switch rapid.IntRange(0, 7).Draw(t, "prekind") {
			case 0:
				add(0, "WATCH", pick(t, "wk", "a", "b", "l"), pick(t, "wk2", "a", "h", "zz"))
			case 1:
				add(0, "UNWATCH")
			case 2:
				add(0, pick(t, "nomulti", "EXEC", "DISCARD"))
			case 3:
				// watches are per database: the connection moves on after watching
				add(0, "SELECT", pick(t, "db", "0", "1", "2"))
			default:
				add(0, c09Data(t)...)
			}
			observer()
		}
		if rapid.IntRange(0, 5).Draw(t, "stray") == 0 {
			// an EXEC / DISCARD / nested MULTI that is an error leaves the transaction state as it was: the watch
			// set before it still guards the transaction that follows
			wk := pick(t, "swk", "a", "l")
			add(0, "WATCH", wk)
			add(0, pick(t, "strayend", "EXEC", "DISCARD"))
			if rapid.Bool().Draw(t, "touch") {
				add(1, pick(t, "touchcmd", []string{"SET", "a", "changed"}, []string{"RPUSH", "l", "more"}, []string{"DEL", wk}, []string{"APPEND", "a", "x"}, []string{"LPOP", "l"})...)
			}
		}
		add(0, "MULTI")
		if rapid.IntRange(0, 7).Draw(t, "nested") == 0 {
			add(0, "MULTI") // nested MULTI: an error, the open transaction goes on
		}
		if rapid.IntRange(0, 7).Draw(t, "watchinside") == 0 {
			add(0, "WATCH", "b") // WATCH inside MULTI: an error, the open transaction goes on
		}
		for i := rapid.IntRange(0, 6).Draw(t, "queued"); i > 0; i-- {
			add(0, c09Queued(t)...)
			observer()
		}
		if rapid.IntRange(0, 4).Draw(t, "end") == 0 {
			add(0, "DISCARD")
		} else {
			add(0, "EXEC")
		}
		// the connection must be back in normal mode: immediate execution, MULTI accepted again
		add(0, "PING")
		add(1, "LRANGE", "l", "0", "-1")
		if rapid.Bool().Draw(t, "probeMulti") {
			add(0, "MULTI")
			add(0, "SET", "probe", "1")
			add(0, pick(t, "pe", "EXEC", "DISCARD"))
			add(0, "GET", "probe")
			add(0, "DEL", "probe")
		}
	}
	return c
}

func c09Observe(step MStep, exp model.Exp, got kit.Value, srv *model.Server, sess []*model.Session, st *kit.Stats, flags map[string]int) {
	name := upper(string(step.Argv[0]))
	if step.Conn == 0 {
		switch name {
		case "EXEC":
			switch {
			case exp.Kind == model.EErr && exp.Class == "EXECABORT":
				st.Class("exec:execabort")
				flags["badtx"]++
				flags["pending"] = 1
			case exp.Kind == model.EVal && exp.V.K == kit.KNil:
				st.Class("exec:aborted-by-watch")
				flags["badtx"]++
				flags["pending"] = 1
			case exp.Kind == model.EExec:
				st.Class("exec:ran")
				for _, s := range exp.Sub {
					if s.IsErr() {
						st.Class("exec:runtime-error-inside")
						flags["pending"] = 1
						break
					}
				}
				if flags["pending"] > 0 && flags["seenbad"] > 0 {
					flags["after"]++
				}
			default:
				st.Class("exec:without-multi")
			}
			if flags["pending"] > 0 {
				flags["seenbad"] = 1
			}
		case "DISCARD":
			st.Class("discard")
		case "MULTI":
			if flags["seenbad"] > 0 && !exp.IsErr() {
				flags["after"]++
			}
			if exp.IsErr() {
				st.Class("nested-multi")
			}
		}
		if exp.Kind == model.EVal && exp.V.K == kit.KSimple && exp.V.S == "QUEUED" {
			st.Class("queued")
		}
		if exp.Kind == model.EErr && sess[0].InMulti {
			st.Class("error-while-queueing")
		}
	} else {
		st.Class("observer-command")
	}
}

func c09Run(c MultiCase, st *kit.Stats) error {
	flags := map[string]int{}
	err := runMulti(c, st, multiHooks{observe: c09Observe, dumpAll: true}, flags)
	if err == nil && flags["after"] > 0 {
		st.NonTrivial(c.Canon(), c.Sample())
	}
	return err
}

func TestC09(t *testing.T) {
	kit.Check(t, kit.Prop[MultiCase]{ID: "C09", Gen: c09Gen, Run: c09Run})
}

// ---- part B: concurrent observers during EXEC -------------------------------------------------------

type C09BCase struct {
	Keys      int `json:"keys"`      // number of keys kept equal by the transaction
	Rounds    int `json:"rounds"`    // transactions
	Writes    int `json:"writes"`    // writes per key per transaction
	Observers int `json:"observers"` // concurrent observer connections
	Mode      int `json:"mode"`      // 0: MGET  1: MULTI{GET..}EXEC  2: LLEN pairs in MULTI
	Pad       int `json:"pad"`       // value padding (bytes) to lengthen the critical section
}

func c09BGen(t *rapid.T) C09BCase {
	return C09BCase{
		Keys:      rapid.IntRange(2, 6).Draw(t, "keys"),
		Rounds:    rapid.IntRange(3, 12).Draw(t, "rounds"),
		Writes:    rapid.IntRange(1, 8).Draw(t, "writes"),
		Observers: rapid.IntRange(2, 6).Draw(t, "observers"),
		Mode:      rapid.IntRange(0, 2).Draw(t, "mode"),
		Pad:       pick(t, "pad", 0, 16, 1024, 8192),
	}
}

func c09BRun(c C09BCase, st *kit.Stats) error {
	stalls := kit.Stalls.Load()
	err := c09BRunInner(c, st)
	if err == nil {
		err = kit.StallError(stalls)
	}
	return err
}

func c09BRunInner(c C09BCase, st *kit.Stats) error {
	emu := kit.StartEmu("")
	defer emu.Stop()
	tc := emu.Dial()
	keys := make([]string, c.Keys)
	for i := range keys {
		keys[i] = fmt.Sprintf("k%d", i)
	}
	pad := make([]byte, c.Pad)
	for i := range pad {
		pad[i] = 'p'
	}
	val := func(round int) string { return fmt.Sprintf("%06d%s", round, pad) }
	// initial state satisfies the invariant
	for _, k := range keys {
		if c.Mode == 2 {
			tc.Do("RPUSH", k, "x")
		} else {
			tc.Do("SET", k, val(0))
		}
	}
	var mu sync.Mutex
	var execIv [][2]time.Time
	stop := make(chan struct{})
	errs := make(chan error, c.Observers+1)
	var inside int
	var wg sync.WaitGroup
	for o := 0; o < c.Observers; o++ {
		oc := emu.Dial()
		wg.Add(1)
		go func() {
			defer wg.Done()
			for {
				select {
				case <-stop:
					return
				default:
				}
				var vals []kit.Value
				t0 := time.Now()
				switch c.Mode {
				case 0:
					v, err := oc.Do(append([]string{"MGET"}, keys...)...)
					if err != nil {
						errs <- fmt.Errorf("observer MGET: %v", err)
						return
					}
					vals = v.A
				default:
					oc.Do("MULTI")
					for _, k := range keys {
						if c.Mode == 1 {
							oc.Do("GET", k)
						} else {
							oc.Do("LLEN", k)
						}
					}
					v, err := oc.Do("EXEC")
					if err != nil || v.K != kit.KArr {
						errs <- fmt.Errorf("observer EXEC: %v %v", v, err)
						return
					}
					vals = v.A
				}
				t1 := time.Now()
				if len(vals) != len(keys) {
					errs <- fmt.Errorf("observer got %d values for %d keys", len(vals), len(keys))
					return
				}
				for i := 1; i < len(vals); i++ {
					if !kit.Equal(vals[0], vals[i]) {
						a, b := vals[0].String(), vals[i].String()
						if len(a) > 20 {
							a = a[:20]
						}
						if len(b) > 20 {
							b = b[:20]
						}
						errs <- fmt.Errorf("observer saw a half-applied transaction: %s=%s.. but %s=%s.. (all keys are written to the same value inside one MULTI/EXEC)", keys[0], a, keys[i], b)
						return
					}
				}
				mu.Lock()
				for _, iv := range execIv {
					if t1.After(iv[0]) && t0.Before(iv[1]) {
						inside++
						break
					}
				}
				mu.Unlock()
			}
		}()
	}
	var terr error
	for r := 1; r <= c.Rounds && terr == nil; r++ {
		tc.Do("MULTI")
		n := 0
		for w := 0; w < c.Writes; w++ {
			for _, k := range keys {
				if c.Mode == 2 {
					tc.Do("RPUSH", k, "x")
				} else {
					// intermediate values differ per key; the last write makes them equal again
					v := val(r)
					if w < c.Writes-1 {
						v = fmt.Sprintf("tmp-%s-%d", k, w)
					}
					tc.Do("SET", k, v)
				}
				n++
			}
		}
		t0 := time.Now()
		v, err := tc.Do("EXEC")
		t1 := time.Now()
		mu.Lock()
		execIv = append(execIv, [2]time.Time{t0, t1})
		mu.Unlock()
		if err != nil || v.K != kit.KArr || len(v.A) != n {
			terr = fmt.Errorf("EXEC of %d queued commands replied %v %v", n, v, err)
		}
		select {
		case e := <-errs:
			terr = e
		default:
		}
	}
	// let observers overlap a little longer, then stop
	close(stop)
	wg.Wait()
	select {
	case e := <-errs:
		if terr == nil {
			terr = e
		}
	default:
	}
	if terr != nil {
		return terr
	}
	st.ClassN("observer-replies-overlapping-exec", inside)
	st.Class(fmt.Sprintf("mode:%d", c.Mode))
	if inside >= 1 {
		st.NonTrivial(fmt.Sprintf("%+v", c), c)
	}
	return nil
}

func TestC09B(t *testing.T) {
	kit.Check(t, kit.Prop[C09BCase]{ID: "C09B", Gen: c09BGen, Run: c09BRun})
}
