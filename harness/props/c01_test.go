package props

import (
	"bytes"
	"fmt"
	"hash/fnv"
	"os"
	"sort"
	"strconv"
	"strings"
	"sync"
	"testing"
	"time"
	"unicode/utf8"

	"pgregory.net/rapid"

	"verifharness/kit"
)

// C01 — one well-formed reply per command, in order, framing-independent, binary-safe.
//
// A case is a program of well-formed commands (arrays of bulk strings) whose arguments come from a
// hostile byte-string pool, plus a description of how the request byte stream is cut into TCP
// writes. The program is executed three times, each time on a fresh emulator:
//   (i)   reference: one command per write, reply awaited before the next command is sent;
//   (ii)  the whole program in one write;
//   (iii) the byte stream cut at the drawn offsets, with 1-2 ms pauses after a drawn subset of cuts.
// Every run ends with the sentinel ECHO <nonce> (nonce = hash of the program).
// Oracle: (1) the strict parser reads exactly one reply per command, then the sentinel's reply is the
// nonce, then the connection stays quiet for 20 ms; (2) the reply bytes of (ii) and (iii) equal those of
// (i) - replies that are unordered collections (KEYS, SMEMBERS, HGETALL, ...: the emulator walks Go maps)
// are compared as multisets, and replies that legitimately depend on the clock, the connection or a
// random choice (INFO, CLIENT ID/INFO/LIST, RANDOMKEY, *RAND*, TTL, *SCAN, COMMAND LIST/DOCS/INFO) are
// only subject to (1); (3) a write acknowledged with a success reply and immediately followed by a
// read-back of the same key returns the stored bytes unchanged, and ECHO/PING return their argument.
//
// Defects found by this check that are still open in /repo are avoided behind predicates marked
// TEMP-EXCLUDE (c01Excluded, c01TolerateResp2Null); C01_NOEXCLUDE=1 disables all of them.

// C01Cut describes one cut symbolically so that it stays valid when rapid shrinks the program:
// every field is reduced modulo what the program actually offers.
type C01Cut struct {
	Class int `json:"class"` // see c01Resolve
	Cmd   int `json:"cmd"`   // command index (mod number of commands incl. sentinel)
	Arg   int `json:"arg"`   // argument index (mod argc)
	Sub   int `json:"sub"`   // position selector inside the chosen region
	Pause int `json:"pause"` // milliseconds to sleep after the segment that ends at this cut (0..2)
}

type C01Case struct {
	Proto int        `json:"proto"`
	Cmds  []kit.Argv `json:"cmds"`
	Cuts  []C01Cut   `json:"cuts"`
	// EveryByte: for short programs, run (iii) writes one byte at a time (Cuts are ignored) and sleeps
	// 1 ms after every PauseEvery-th byte (0 = never).
	EveryByte  bool `json:"every_byte"`
	PauseEvery int  `json:"pause_every"`
}

const (
	c01MaxCmds      = 25
	c01MaxCuts      = 40
	c01EveryByteMax = 700 // byte-at-a-time only when the request stream is at most this long
	c01QuietMs      = 20
)

// ---- known-defect predicates (generator avoids the trigger; the lead removes them after the fix) ----

// c01Excluded returns the id of the listed defect that the command would trigger ("" = none).
// C01_NOEXCLUDE=1 switches the predicates off (sensitivity check: the search must then find the defects).
func c01Excluded(argv kit.Argv, proto int) string {
	// every defect these predicates avoided has been repaired in /repo (see known_findings.json, "fixed:");
	// they stay switched off (C01_EXCLUDE=1 re-enables them) so that a regression is reported again
	if len(argv) == 0 || os.Getenv("C01_EXCLUDE") == "" {
		return ""
	}
	name := strings.ToLower(string(argv[0]))
	_, known := c01Known[name]
	hasCRLF := func(s kit.S) bool { return strings.ContainsAny(string(s), "\r\n") }
	if !known {
		// TEMP-EXCLUDE: unknown-command error reply echoes CR/LF of the command name and of the
		// arguments verbatim into a RESP error line (cmdDispatcher.go prepare, respSerializer.go
		// serializeSimpleString)
		for _, a := range argv {
			if hasCRLF(a) {
				return "C01-unknown-command-echoes-crlf"
			}
		}
	}
	if (name == "client" || name == "command") && len(argv) >= 2 && hasCRLF(argv[1]) {
		// TEMP-EXCLUDE: "unknown subcommand" error echoes CR/LF of the subcommand name
		// (cmdDispatcher.go prepare)
		return "C01-unknown-subcommand-echoes-crlf"
	}
	if name == "client" && len(argv) >= 4 && strings.EqualFold(string(argv[1]), "kill") && hasCRLF(argv[3]) {
		// TEMP-EXCLUDE: CLIENT KILL USER <name>: "No such user" error echoes CR/LF of the name
		// (redisClient.go fnClientKill)
		return "C01-no-such-user-echoes-crlf"
	}
	if proto == 2 && (name == "info" || name == "client" && len(argv) == 2 && strings.EqualFold(string(argv[1]), "list")) {
		// TEMP-EXCLUDE: on a RESP2 connection a verbatim-string reply (INFO, CLIENT LIST) is sent as a
		// simple string "+txt:..." that contains the text's CR/LF bytes (resp.go resp3To2)
		return "C01-verbatim-as-simple-string-resp2"
	}
	return ""
}

// TEMP-EXCLUDE: on a RESP3 connection the emulator encodes "no value" as the RESP2 null "$-1\r\n"
// instead of "_\r\n" (respSerializer.go serializeValue, case nil). That is a protocol-version matter
// (property C15); C01 tolerates it while it is open so that the search goes on behind it.
var c01TolerateResp2Null = os.Getenv("C01_EXCLUDE") != ""

// c01Known: command names the generator uses with their real meaning (lower case).
var c01Known = map[string]bool{
	"set": true, "get": true, "append": true, "strlen": true, "getrange": true, "mget": true, "mset": true,
	"del": true, "exists": true, "type": true, "lpush": true, "rpush": true, "lrange": true, "lpop": true,
	"llen": true, "lindex": true, "hset": true, "hget": true, "hmget": true, "hlen": true, "hdel": true,
	"hgetall": true, "sadd": true, "sismember": true, "scard": true, "srem": true, "smembers": true,
	"echo": true, "ping": true, "keys": true, "client": true, "command": true,
	"hkeys": true, "hvals": true, "sinter": true, "sunion": true, "multi": true, "exec": true, "discard": true,
	"info": true, "dbsize": true, "randomkey": true, "srandmember": true, "hrandfield": true, "ttl": true,
	"pttl": true, "scan": true, "sscan": true, "hscan": true,
}

// c01U draws an index in [0,n) approximately uniformly (rapid's integer generators strongly favour
// small values, which would let the first alternatives dominate the command mix); 0 stays the
// simplest value for shrinking.
func c01U(t *rapid.T, label string, n int) int {
	x := rapid.Uint64().Draw(t, label)
	if x == 0 {
		return 0
	}
	return int((x * 0x9E3779B97F4A7C15 >> 32) % uint64(n))
}

func c01W(t *rapid.T, label string, w []int) int {
	tot := 0
	for _, x := range w {
		tot += x
	}
	r := c01U(t, label, tot)
	for i, x := range w {
		if r < x {
			return i
		}
		r -= x
	}
	return len(w) - 1
}

func c01Pick(t *rapid.T, label string, xs ...string) string { return xs[c01U(t, label, len(xs))] }

// ---- hostile byte strings -------------------------------------------------------------------------

var c01Specials = []string{
	"", "\r", "\n", "\r\n", "\r\n$5\r\n", "\x00", "+OK\r\n", "*2\r\n", "$-1\r\n", "-ERR x\r\n", ":1\r\n",
	"a", "k", "a b", "0", "-1", "\xff", "\xff\xfe\x80", "\xc3\x28", "\xe2\x82", "\xed\xa0\x80", "\xc0\x80",
	"\xc3\xa9", "\xe6\x97\xa5\xe6\x9c\xac", "\xf0\x9f\x98\x80", "`", "'", "\"", "%s%d%!", "*", "$", "_\r\n", "#t\r\n",
	"\n\r", "\r\r\n", "a\r", "a\n", "\x00\r\n\x00", "*1\r\n$4\r\nPING\r\n", "\x1b[2J", "\t", " ",
}

// c01Fill repeats unit up to n bytes (a non-empty unit is required).
func c01Fill(unit string, n int) string {
	if unit == "" {
		unit = "a"
	}
	var sb strings.Builder
	sb.Grow(n + len(unit))
	for sb.Len() < n {
		sb.WriteString(unit)
	}
	return sb.String()[:n]
}

func c01SmallBlob(t *rapid.T) string {
	switch c01W(t, "blob", []int{60, 10, 20, 10}) {
	case 0:
		return c01Pick(t, "special", c01Specials...)
	case 1:
		n := rapid.IntRange(1, 40).Draw(t, "hi-n")
		b := make([]byte, n)
		for i := range b {
			b[i] = byte(rapid.IntRange(0x80, 0xff).Draw(t, "hi"))
		}
		return string(b)
	case 2:
		return string(rapid.SliceOfN(rapid.Byte(), 0, 24).Draw(t, "rnd"))
	default:
		// two specials glued together
		return c01Pick(t, "special", c01Specials...) + c01Pick(t, "special", c01Specials...)
	}
}

// c01BigBlob: lengths around the 8 KiB read buffer, 20 KiB, 70 KiB (rare); content is a repeated
// small hostile unit so the case stays cheap to draw and to shrink.
func c01BigBlob(t *rapid.T) string {
	var n int
	switch c01W(t, "bigsize", []int{20, 20, 20, 20, 8, 8, 3}) {
	case 0:
		n = 8191
	case 1:
		n = 8192
	case 2:
		n = 8193
	case 3:
		n = rapid.IntRange(8100, 8260).Draw(t, "near8k")
	case 4:
		n = 16384 + rapid.IntRange(-40, 40).Draw(t, "near16k")
	case 5:
		n = 20 * 1024
	default:
		n = 70 * 1024
	}
	unit := c01Pick(t, "unit", "a", "\r\n", "\xff", "\x00", "ab\r", "\n", "\xc3", "$3\r\nabc\r\n", "xyz\r\n+OK")
	return c01Fill(unit, n)
}

type c01Pools struct {
	keys []string
	vals []string
}

func c01DrawPools(t *rapid.T) c01Pools {
	var p c01Pools
	p.keys = []string{"k1"}
	for len(p.keys) < 4 {
		k := c01SmallBlob(t)
		dup := false
		for _, x := range p.keys {
			dup = dup || x == k
		}
		if dup {
			k = "key" + strconv.Itoa(len(p.keys))
		}
		p.keys = append(p.keys, k)
	}
	if rapid.IntRange(0, 11).Draw(t, "bigkey") == 0 {
		p.keys[3] = c01BigBlob(t)
	}
	for i := 0; i < 6; i++ {
		p.vals = append(p.vals, c01SmallBlob(t))
	}
	// big values: none in two thirds of the cases, else one or two
	switch rapid.IntRange(0, 5).Draw(t, "bigvals") {
	case 0:
		p.vals = append(p.vals, c01BigBlob(t))
	case 1:
		p.vals = append(p.vals, c01BigBlob(t), c01BigBlob(t))
	}
	return p
}

func (p c01Pools) val(t *rapid.T) string {
	// a fresh blob now and then so that not everything repeats
	if rapid.IntRange(0, 4).Draw(t, "fresh") == 0 {
		return c01SmallBlob(t)
	}
	return p.vals[c01U(t, "val", len(p.vals))]
}

// key draws a key; home is the index of the key this command family prefers (keeps WRONGTYPE
// replies from dominating while still letting families collide).
func (p c01Pools) key(t *rapid.T, home int) string {
	if rapid.IntRange(0, 3).Draw(t, "anykey") == 0 {
		return p.keys[rapid.IntRange(0, len(p.keys)-1).Draw(t, "key")]
	}
	return p.keys[home%len(p.keys)]
}

func (p c01Pools) vals1to(t *rapid.T, hi int) []string {
	n := rapid.IntRange(1, hi).Draw(t, "n")
	out := make([]string, n)
	for i := range out {
		out[i] = p.val(t)
	}
	return out
}

var c01SmallInts = []string{"0", "1", "-1", "2", "-2", "3", "7", "-8", "100", "8191", "8192", "-8193", "100000"}

// c01Step draws one command plus, usually, a read-back command that lets Run verify the bytes.
func c01Step(t *rapid.T, p c01Pools) []kit.Argv {
	cn := func(s string) string { return randCase(t, s) }
	rb := func() bool { return rapid.IntRange(0, 3).Draw(t, "readback") != 0 }
	switch c01W(t, "cmd", []int{10, 4, 4, 2, 4, 3, 4, 5, 9, 5, 9, 5, 8, 4, 6, 3, 6, 4, 3, 3, 6, 5, 2}) {
	case 0:
		k, v := p.key(t, 0), p.val(t)
		out := []kit.Argv{kit.A(cn("SET"), k, v)}
		if rb() {
			switch rapid.IntRange(0, 5).Draw(t, "rbk") {
			case 0:
				out = append(out, kit.A(cn("STRLEN"), k))
			case 1:
				out = append(out, kit.A(cn("EXISTS"), k, k))
			case 2:
				out = append(out, kit.A(cn("KEYS"), "*"))
			default:
				out = append(out, kit.A(cn("GET"), k))
			}
		}
		return out
	case 1:
		return []kit.Argv{kit.A(cn("GET"), p.key(t, 0))}
	case 2:
		return []kit.Argv{kit.A(cn("APPEND"), p.key(t, 0), p.val(t))}
	case 3:
		return []kit.Argv{kit.A(cn("STRLEN"), p.key(t, 0))}
	case 4:
		return []kit.Argv{kit.A(cn("GETRANGE"), p.key(t, 0), pick(t, "s", c01SmallInts...), pick(t, "e", c01SmallInts...))}
	case 5:
		a := []string{cn("MGET")}
		for i, n := 0, rapid.IntRange(1, 3).Draw(t, "n"); i < n; i++ {
			a = append(a, p.key(t, i))
		}
		return []kit.Argv{kit.A(a...)}
	case 6:
		a := []string{cn("MSET")}
		g := []string{cn("MGET")}
		for i, n := 0, rapid.IntRange(1, 3).Draw(t, "n"); i < n; i++ {
			k := p.key(t, i)
			a = append(a, k, p.val(t))
			g = append(g, k)
		}
		out := []kit.Argv{kit.A(a...)}
		if rb() {
			out = append(out, kit.A(g...))
		}
		return out
	case 7:
		switch rapid.IntRange(0, 2).Draw(t, "which") {
		case 0:
			return []kit.Argv{kit.A(cn("DEL"), p.key(t, 0), p.key(t, 1))}
		case 1:
			return []kit.Argv{kit.A(cn("EXISTS"), p.key(t, 0), p.key(t, 2))}
		}
		return []kit.Argv{kit.A(cn("TYPE"), p.key(t, rapid.IntRange(0, 3).Draw(t, "home")))}
	case 8:
		k := p.key(t, 1)
		name := pick(t, "push", "RPUSH", "LPUSH")
		out := []kit.Argv{kit.A(append([]string{cn(name), k}, p.vals1to(t, 3)...)...)}
		if rb() {
			switch rapid.IntRange(0, 2).Draw(t, "rbl") {
			case 0:
				out = append(out, kit.A(cn("LRANGE"), k, "0", "-1"))
			case 1:
				if name == "RPUSH" {
					out = append(out, kit.A(cn("LRANGE"), k, "-1", "-1"))
				} else {
					out = append(out, kit.A(cn("LINDEX"), k, "0"))
				}
			default:
				if name == "RPUSH" {
					out = append(out, kit.A(cn("LINDEX"), k, "-1"))
				} else {
					out = append(out, kit.A(cn("LRANGE"), k, "0", "0"))
				}
			}
		}
		return out
	case 9:
		k := p.key(t, 1)
		switch rapid.IntRange(0, 3).Draw(t, "which") {
		case 0:
			return []kit.Argv{kit.A(cn("LRANGE"), k, pick(t, "s", c01SmallInts...), pick(t, "e", c01SmallInts...))}
		case 1:
			return []kit.Argv{kit.A(cn("LPOP"), k)}
		case 2:
			return []kit.Argv{kit.A(cn("LLEN"), k)}
		}
		return []kit.Argv{kit.A(cn("LINDEX"), k, pick(t, "i", c01SmallInts...))}
	case 10:
		k := p.key(t, 2)
		a := []string{cn("HSET"), k}
		var fields []string
		for i, n := 0, rapid.IntRange(1, 3).Draw(t, "n"); i < n; i++ {
			f := p.val(t)
			fields = append(fields, f)
			a = append(a, f, p.val(t))
		}
		out := []kit.Argv{kit.A(a...)}
		if rb() {
			switch rapid.IntRange(0, 3).Draw(t, "rbh") {
			case 0:
				out = append(out, kit.A(cn("HGETALL"), k))
			case 1:
				out = append(out, kit.A(append([]string{cn("HMGET"), k}, fields...)...))
			default:
				out = append(out, kit.A(cn("HGET"), k, fields[rapid.IntRange(0, len(fields)-1).Draw(t, "f")]))
			}
		}
		return out
	case 11:
		k := p.key(t, 2)
		switch rapid.IntRange(0, 3).Draw(t, "which") {
		case 0:
			return []kit.Argv{kit.A(cn("HGET"), k, p.val(t))}
		case 1:
			return []kit.Argv{kit.A(append([]string{cn("HMGET"), k}, p.vals1to(t, 3)...)...)}
		case 2:
			return []kit.Argv{kit.A(cn("HLEN"), k)}
		}
		return []kit.Argv{kit.A(append([]string{cn("HDEL"), k}, p.vals1to(t, 2)...)...)}
	case 12:
		k := p.key(t, 3)
		ms := p.vals1to(t, 3)
		out := []kit.Argv{kit.A(append([]string{cn("SADD"), k}, ms...)...)}
		if rb() {
			switch rapid.IntRange(0, 3).Draw(t, "rbs") {
			case 0:
				out = append(out, kit.A(cn("SMEMBERS"), k))
			case 1:
				out = append(out, kit.A(cn("SCARD"), k))
			default:
				out = append(out, kit.A(cn("SISMEMBER"), k, ms[rapid.IntRange(0, len(ms)-1).Draw(t, "m")]))
			}
		}
		return out
	case 13:
		k := p.key(t, 3)
		switch rapid.IntRange(0, 2).Draw(t, "which") {
		case 0:
			return []kit.Argv{kit.A(cn("SISMEMBER"), k, p.val(t))}
		case 1:
			return []kit.Argv{kit.A(cn("SCARD"), k)}
		}
		return []kit.Argv{kit.A(append([]string{cn("SREM"), k}, p.vals1to(t, 2)...)...)}
	case 14:
		return []kit.Argv{kit.A(cn("ECHO"), p.val(t))}
	case 15:
		if rapid.Bool().Draw(t, "msg") {
			return []kit.Argv{kit.A(cn("PING"), p.val(t))}
		}
		return []kit.Argv{kit.A(cn("PING"))}
	case 16:
		// unknown command: the error reply quotes the name and the arguments
		name := pick(t, "uname", "FOO", "foo", "NOSUCHCMD", "GETT", "S", "")
		if rapid.IntRange(0, 2).Draw(t, "hostile-name") == 0 {
			name = c01SmallBlob(t)
		}
		if c01Known[strings.ToLower(name)] {
			name += "x"
		}
		a := []string{name}
		for i, n := 0, rapid.IntRange(0, 3).Draw(t, "n"); i < n; i++ {
			a = append(a, p.val(t))
		}
		return []kit.Argv{kit.A(a...)}
	case 17:
		// wrong arity / non-integer where an integer is required: the error quotes the command name as spelled
		switch rapid.IntRange(0, 7).Draw(t, "which") {
		case 0:
			return []kit.Argv{kit.A(cn("GET"))}
		case 1:
			return []kit.Argv{kit.A(cn("GET"), p.key(t, 0), p.val(t))}
		case 2:
			return []kit.Argv{kit.A(cn("SET"), p.key(t, 0))}
		case 3:
			return []kit.Argv{kit.A(cn("HSET"), p.key(t, 2), p.val(t))}
		case 4:
			return []kit.Argv{kit.A(cn("ECHO"))}
		case 5:
			return []kit.Argv{kit.A(cn("ECHO"), p.val(t), p.val(t))}
		case 6:
			return []kit.Argv{kit.A(cn("GETRANGE"), p.key(t, 0), p.val(t)+"x", "1")}
		}
		return []kit.Argv{kit.A(cn("LRANGE"), p.key(t, 1), "0", "x"+p.val(t))}
	case 18:
		// unknown subcommand of a container command: the error quotes the subcommand
		sub := c01SmallBlob(t) + "-nosuch"
		return []kit.Argv{kit.A(cn(pick(t, "container", "CLIENT", "COMMAND")), sub)}
	case 19:
		return []kit.Argv{kit.A(cn("KEYS"), "*")}
	case 20:
		// replies that legitimately differ between runs (clock, connection identity, random choice):
		// only checked for "exactly one well-formed reply"
		switch c01U(t, "volatile", 27) {
		case 19, 20, 21, 22, 23, 24, 25, 26:
			// text that the server embeds in a larger reply text (CLIENT LIST / INFO are verbatim strings under RESP3)
			return []kit.Argv{kit.A(cn("CLIENT"), cn("SETNAME"), c01Pick(t, "cname", "rate=100%", "%d%s%v", "a%", "%%", "100%!", "%x%x%x%x", "{}", "name\\x", "%-5d|")), kit.A(cn("CLIENT"), cn(c01Pick(t, "after", "LIST", "LIST", "LIST", "INFO", "GETNAME")))}
		case 0:
			return []kit.Argv{kit.A(cn("CLIENT"), cn("ID"))}
		case 1:
			return []kit.Argv{kit.A(cn("CLIENT"), cn("INFO"))}
		case 2:
			return []kit.Argv{kit.A(cn("CLIENT"), cn("LIST"))}
		case 3:
			return []kit.Argv{kit.A(cn("INFO"))}
		case 4:
			return []kit.Argv{kit.A(cn("INFO"), c01Pick(t, "section", "server", "clients", "memory", "stats", "keyspace", "nosuchsection"))}
		case 5:
			return []kit.Argv{kit.A(cn("RANDOMKEY"))}
		case 6:
			return []kit.Argv{kit.A(cn("SRANDMEMBER"), p.key(t, 3))}
		case 7:
			return []kit.Argv{kit.A(cn("SRANDMEMBER"), p.key(t, 3), c01Pick(t, "count", "0", "1", "2", "-3", "5"))}
		case 8:
			return []kit.Argv{kit.A(cn("HRANDFIELD"), p.key(t, 2))}
		case 9:
			return []kit.Argv{kit.A(cn("HRANDFIELD"), p.key(t, 2), c01Pick(t, "count", "1", "2", "-3"), cn("WITHVALUES"))}
		case 10:
			return []kit.Argv{kit.A(cn(c01Pick(t, "ttl", "TTL", "PTTL")), p.key(t, 0))}
		case 11:
			return []kit.Argv{kit.A(cn("SCAN"), "0")}
		case 12:
			return []kit.Argv{kit.A(cn("SSCAN"), p.key(t, 3), "0")}
		case 13:
			return []kit.Argv{kit.A(cn("HSCAN"), p.key(t, 2), "0")}
		case 14:
			return []kit.Argv{kit.A(cn("DBSIZE"))}
		case 15:
			return []kit.Argv{kit.A(cn("COMMAND"), cn("LIST"))}
		case 16:
			return []kit.Argv{kit.A(cn("COMMAND"), cn("INFO"), c01Pick(t, "cname", "get", "SET", "lrange", "nosuch", "client|kill"))}
		case 17:
			return []kit.Argv{kit.A(cn("COMMAND"), cn("DOCS"), c01Pick(t, "cname", "get", "SET", "lrange", "nosuch", "hset"))}
		default:
			return []kit.Argv{kit.A(cn("CLIENT"), cn("KILL"), cn("USER"), p.val(t)+"-nosuchuser")}
		}
	case 21:
		// a transaction: every command is acknowledged (+QUEUED or an error) and EXEC replies the array
		// of results. Only commands whose replies consist of RESP2 types in both protocols are queued.
		out := []kit.Argv{kit.A(cn("MULTI"))}
		for i, n := 0, rapid.IntRange(1, 4).Draw(t, "nq"); i < n; i++ {
			switch c01U(t, "queued", 15) {
			case 12, 13:
				// an error produced when the queued command runs, quoting client bytes: it travels inside the EXEC array
				out = append(out, kit.A(cn("CLIENT"), cn("KILL"), cn("USER"), p.val(t)+"-nosuchuser"))
			case 14:
				out = append(out, kit.A(cn("SETEX"), p.key(t, 0), "0", p.val(t)))
			case 0:
				out = append(out, kit.A(cn("SET"), p.key(t, 0), p.val(t)))
			case 1:
				out = append(out, kit.A(cn("GET"), p.key(t, 0)))
			case 2:
				out = append(out, kit.A(cn("APPEND"), p.key(t, 0), p.val(t)))
			case 3:
				out = append(out, kit.A(cn("RPUSH"), p.key(t, 1), p.val(t), p.val(t)))
			case 4:
				out = append(out, kit.A(cn("LRANGE"), p.key(t, 1), "0", "-1"))
			case 5:
				out = append(out, kit.A(cn("LPOP"), p.key(t, 1)))
			case 6:
				out = append(out, kit.A(cn("HSET"), p.key(t, 2), p.val(t), p.val(t)))
			case 7:
				out = append(out, kit.A(cn("HMGET"), p.key(t, 2), p.val(t), p.val(t)))
			case 8:
				out = append(out, kit.A(cn("ECHO"), p.val(t)))
			case 9:
				out = append(out, kit.A("NOSUCHCMD", p.val(t)))
			case 10:
				out = append(out, kit.A(cn("GET")))
			default:
				out = append(out, kit.A(cn("SISMEMBER"), p.key(t, 3), p.val(t)))
			}
		}
		return append(out, kit.A(cn(c01Pick(t, "end", "EXEC", "EXEC", "EXEC", "DISCARD"))))
	default:
		// many arguments: a multi-digit "*n" header
		k := p.key(t, 1)
		a := []string{cn(c01Pick(t, "many", "RPUSH", "SADD")), k}
		for i, n := 0, rapid.IntRange(98, 130).Draw(t, "nargs"); i < n; i++ {
			a = append(a, c01Pick(t, "tiny", "", "a", "\r\n", "\xff", "b", "\x00", "ab"))
		}
		out := []kit.Argv{kit.A(a...)}
		if upper(a[0]) == "RPUSH" {
			out = append(out, kit.A(cn("LRANGE"), k, "0", "-1"))
		} else {
			out = append(out, kit.A(cn("SMEMBERS"), k))
		}
		return out
	}
}

func c01DrawCut(t *rapid.T) C01Cut {
	return C01Cut{
		Class: c01W(t, "cutclass", []int{10, 12, 14, 12, 12, 10, 8, 6, 6}),
		Cmd:   rapid.IntRange(0, c01MaxCmds).Draw(t, "cutcmd"),
		Arg:   rapid.IntRange(0, 7).Draw(t, "cutarg"),
		Sub:   rapid.IntRange(0, 9999).Draw(t, "cutsub"),
		Pause: []int{0, 0, 0, 0, 0, 0, 0, 1, 1, 2}[rapid.IntRange(0, 9).Draw(t, "pause")],
	}
}

func c01Gen(t *rapid.T) C01Case {
	c := C01Case{Proto: pick(t, "proto", 2, 3)}
	p := c01DrawPools(t)
	n := rapid.IntRange(1, c01MaxCmds).Draw(t, "ncmds")
	for len(c.Cmds) < n {
		step := c01Step(t, p) // a step (command + read-back, or MULTI ... EXEC) is kept whole or not at all
		if len(c.Cmds)+len(step) > c01MaxCmds {
			break
		}
		c.Cmds = append(c.Cmds, step...)
	}
	if len(c.Cmds) == 0 {
		c.Cmds = []kit.Argv{kit.A("PING")}
	}
	nc := 0
	switch c01W(t, "ncuts", []int{6, 30, 40, 24}) {
	case 1:
		nc = rapid.IntRange(1, 3).Draw(t, "nc")
	case 2:
		nc = rapid.IntRange(4, 12).Draw(t, "nc")
	case 3:
		nc = rapid.IntRange(13, c01MaxCuts).Draw(t, "nc")
	}
	for i := 0; i < nc; i++ {
		c.Cuts = append(c.Cuts, c01DrawCut(t))
	}
	c.EveryByte = c01U(t, "everybyte", 5) == 1
	c.PauseEvery = pick(t, "pause-every", 0, 0, 37, 64, 101)
	return c
}

// ---- request layout and cut resolution -------------------------------------------------------------

type c01ArgLay struct{ lenStart, payStart, payEnd int } // "$len\r\n" starts at lenStart; payload [payStart,payEnd); CRLF follows

type c01CmdLay struct {
	start, hdrEnd, end int
	args               []c01ArgLay
}

// c01Layout encodes the commands and records where every syntactic element lies in the stream.
func c01Layout(cmds []kit.Argv) (encs [][]byte, lays []c01CmdLay, total int) {
	off := 0
	for _, a := range cmds {
		enc := kit.EncodeCmd(a.Strs()...)
		l := c01CmdLay{start: off}
		pos := off + len("*"+strconv.Itoa(len(a))+"\r\n")
		l.hdrEnd = pos
		for _, s := range a {
			al := c01ArgLay{lenStart: pos}
			pos += len("$" + strconv.Itoa(len(s)) + "\r\n")
			al.payStart = pos
			pos += len(s)
			al.payEnd = pos
			pos += 2
			l.args = append(l.args, al)
		}
		l.end = pos
		if pos-off != len(enc) {
			panic("c01: layout does not match encoding")
		}
		off = pos
		encs = append(encs, enc)
		lays = append(lays, l)
	}
	return encs, lays, off
}

// c01Resolve maps a symbolic cut to a byte offset (-1 = not applicable to this program).
func c01Resolve(cut C01Cut, lays []c01CmdLay, total int) int {
	l := lays[cut.Cmd%len(lays)]
	var a c01ArgLay
	if len(l.args) > 0 {
		a = l.args[cut.Arg%len(l.args)]
	}
	switch cut.Class {
	case 0: // exactly at a command boundary (after the chosen command)
		return l.end
	case 1: // inside the "*n" header, before its CR
		w := l.hdrEnd - 2 - l.start // length of "*n"
		return l.start + 1 + cut.Sub%w
	case 2: // between a CR and its LF: header line, a $len line or the CRLF that ends a payload
		cands := []int{l.hdrEnd - 1}
		for _, x := range l.args {
			cands = append(cands, x.payStart-1, x.payEnd+1)
		}
		return cands[cut.Sub%len(cands)]
	case 3: // inside a "$len" line, before its CR
		if len(l.args) == 0 {
			return -1
		}
		w := a.payStart - 2 - a.lenStart // length of "$len"
		return a.lenStart + 1 + cut.Sub%w
	case 4: // around the first / last byte of a bulk payload
		if len(l.args) == 0 {
			return -1
		}
		cands := []int{a.payStart, a.payStart + 1, a.payEnd - 1, a.payEnd}
		o := cands[cut.Sub%4]
		if o < a.payStart || o > a.payEnd {
			return a.payStart
		}
		return o
	case 5: // anywhere inside a payload
		if len(l.args) == 0 || a.payEnd-a.payStart < 2 {
			return -1
		}
		return a.payStart + 1 + cut.Sub%(a.payEnd-a.payStart-1)
	case 6: // between two arguments
		if len(l.args) == 0 {
			return -1
		}
		return a.lenStart
	case 7: // around a multiple of the server's 8 KiB read buffer
		if total < 8192 {
			return -1
		}
		k := 1 + (cut.Sub/3)%(total/8192)
		return 8192*k + cut.Sub%3 - 1
	default: // anywhere in the stream
		return cut.Sub * total / 10000
	}
}

// c01Classify names the syntactic position of an offset.
func c01Classify(o int, lays []c01CmdLay) string {
	i := sort.Search(len(lays), func(i int) bool { return lays[i].end > o })
	if i >= len(lays) {
		return "boundary"
	}
	l := lays[i]
	if o == l.start {
		return "boundary"
	}
	if o < l.hdrEnd {
		if o == l.hdrEnd-1 {
			return "between-CR-LF"
		}
		return "mid-header"
	}
	for _, a := range l.args {
		if o > a.payEnd+1 {
			continue
		}
		switch {
		case o == a.lenStart:
			return "between-args"
		case o == a.payStart-1 || o == a.payEnd+1:
			return "between-CR-LF"
		case o < a.payStart-1:
			return "inside-$len"
		case o == a.payStart || o == a.payEnd:
			return "payload-edge"
		case o == a.payStart+1 || o == a.payEnd-1:
			return "payload-first-or-last-byte"
		default:
			return "inside-payload"
		}
	}
	return "between-args"
}

// ---- execution ---------------------------------------------------------------------------------------

type c01Seg struct {
	data  []byte
	pause int
}

type c01Run1 struct {
	mode string
	emu  *kit.Emu
	conn *kit.Conn
	vals []kit.Value
	raws [][]byte
	done time.Time
}

// c01Exec sends segs on a fresh connection of emu and reads n replies. lockstep: one segment per
// command, each reply awaited before the next segment is written. Otherwise a writer goroutine sends
// the segments (sleeping where asked) while replies are read concurrently, so that neither side can
// block the other on full socket buffers.
func c01Exec(mode string, emu *kit.Emu, proto int, segs []c01Seg, n int, lockstep bool, cmds []kit.Argv, st *kit.Stats) (*c01Run1, error) {
	r := &c01Run1{mode: mode, emu: emu}
	conn := emu.Dial()
	r.conn = conn
	if proto == 3 {
		if err := conn.Hello3(); err != nil {
			return r, fmt.Errorf("%s: HELLO 3 failed: %v", mode, err)
		}
	}
	conn.KeepRaw = true
	read := func(i int) error {
		before := conn.Raw.Len()
		v, err := conn.Read(kit.ReplyTimeout)
		if pe, ok := err.(*kit.ProtoError); ok && proto == 3 && c01TolerateResp2Null && strings.Contains(pe.Msg, "on a RESP3 connection") {
			// TEMP-EXCLUDE: C15-resp3-null-as-resp2-null. The reply is re-read under the RESP2 rules
			// (which accept "$-1"/"*-1" but no RESP3-only type), so it still has to be one well-formed value.
			conn.Proto = 2
			v, err = conn.Read(kit.ReplyTimeout)
			conn.Proto = 3
			st.Exclude("C15-resp3-null-as-resp2-null")
		}
		if err != nil {
			got := ""
			if len(r.vals) > 0 {
				got = fmt.Sprintf(" (previous reply: %s)", r.vals[len(r.vals)-1])
			}
			return fmt.Errorf("%s: reply %d of %d, to %s: %v%s", mode, i+1, n, cmds[i], err, got)
		}
		r.vals = append(r.vals, v)
		r.raws = append(r.raws, append([]byte(nil), conn.Raw.Bytes()[before:]...))
		return nil
	}
	if lockstep {
		for i, s := range segs {
			if err := conn.Write(s.data); err != nil {
				return r, fmt.Errorf("%s: write of command %d %s failed: %v", mode, i+1, cmds[i], err)
			}
			if err := read(i); err != nil {
				return r, err
			}
		}
		r.done = time.Now()
		return r, nil
	}
	var wg sync.WaitGroup
	var werr error
	wg.Add(1)
	go func() {
		defer wg.Done()
		for _, s := range segs {
			if err := conn.Write(s.data); err != nil {
				werr = err
				return
			}
			if s.pause > 0 {
				time.Sleep(time.Duration(s.pause) * time.Millisecond)
			}
		}
	}()
	for i := 0; i < n; i++ {
		if err := read(i); err != nil {
			conn.Close() // unblocks the writer
			wg.Wait()
			if werr != nil {
				err = fmt.Errorf("%v; write error: %v", err, werr)
			}
			return r, err
		}
	}
	wg.Wait()
	r.done = time.Now()
	if werr != nil {
		return r, fmt.Errorf("%s: write failed although all replies arrived: %v", mode, werr)
	}
	return r, nil
}

// c01Unordered: commands whose reply is an unordered collection (the order of a set / hash / keyspace
// listing is not part of the reply's meaning); compared as multisets instead of bytes.
func c01Unordered(a kit.Argv) bool {
	if len(a) == 0 {
		return false
	}
	switch upper(string(a[0])) {
	case "KEYS", "SMEMBERS", "HGETALL", "HKEYS", "HVALS", "SINTER", "SUNION":
		return true
	}
	return false
}

// c01Volatile: commands whose reply bytes legitimately differ from run to run (they depend on the
// clock, on the connection's identity and port, on process-wide counters or on a random choice).
// Their replies must still be exactly one well-formed value each; their bytes are not compared.
func c01Volatile(a kit.Argv) bool {
	if len(a) == 0 {
		return false
	}
	switch upper(string(a[0])) {
	case "INFO", "RANDOMKEY", "SRANDMEMBER", "HRANDFIELD", "TTL", "PTTL", "SCAN", "SSCAN", "HSCAN":
		return true
	case "CLIENT":
		if len(a) >= 2 {
			switch upper(string(a[1])) {
			case "ID", "INFO", "LIST":
				return true
			}
		}
	case "COMMAND": // COMMAND LIST / DOCS / INFO walk Go maps
		if len(a) >= 2 {
			switch upper(string(a[1])) {
			case "LIST", "DOCS", "INFO":
				return true
			}
		}
	}
	return false
}

// c01Canon renders an unordered reply order-independently (pairs for HGETALL).
func c01Canon(a kit.Argv, v kit.Value, raw []byte) string {
	switch v.K {
	case kit.KArr, kit.KSet, kit.KMap:
	default:
		return "raw:" + string(raw)
	}
	ss, ok := v.Strings()
	if !ok {
		return "raw:" + string(raw)
	}
	if upper(string(a[0])) == "HGETALL" && len(ss)%2 == 0 {
		return v.K.String() + ":" + canonPairs(ss)
	}
	return v.K.String() + ":" + canonSorted(ss)
}

func c01Clip(b []byte) string {
	if len(b) > 160 {
		return fmt.Sprintf("%q...(%d bytes)", b[:120], len(b))
	}
	return fmt.Sprintf("%q", b)
}

// c01Compare: reply bytes of run r equal those of the reference run.
func c01Compare(ref, r *c01Run1, cmds []kit.Argv) error {
	for i := range cmds {
		if c01Volatile(cmds[i]) {
			continue
		}
		if c01Unordered(cmds[i]) {
			if x, y := c01Canon(cmds[i], ref.vals[i], ref.raws[i]), c01Canon(cmds[i], r.vals[i], r.raws[i]); x != y {
				return fmt.Errorf("%s: reply %d to %s differs (as a multiset) from the reference run: %s vs reference %s",
					r.mode, i+1, cmds[i], c01Clip(r.raws[i]), c01Clip(ref.raws[i]))
			}
			continue
		}
		if !bytes.Equal(ref.raws[i], r.raws[i]) {
			return fmt.Errorf("%s: reply %d to %s has different bytes than in the reference run: %s vs reference %s",
				r.mode, i+1, cmds[i], c01Clip(r.raws[i]), c01Clip(ref.raws[i]))
		}
	}
	return nil
}

// ---- binary round trip -------------------------------------------------------------------------------

func c01IsBulk(v kit.Value, s string) bool { return v.K == kit.KBulk && v.S == s }

func c01Contains(v kit.Value, want ...string) (string, bool) {
	ss, ok := v.Strings()
	if !ok {
		return "", false
	}
	have := map[string]int{}
	for _, s := range ss {
		have[s]++
	}
	for _, w := range want {
		if have[w] == 0 {
			return w, false
		}
	}
	return "", true
}

// c01RoundTrip checks, for adjacent (write, read-back) pairs whose write was acknowledged with a
// success reply, that the read-back returns exactly the bytes that were sent; plus ECHO/PING.
func c01RoundTrip(mode string, cmds []kit.Argv, vals []kit.Value, st *kit.Stats) error {
	bad := func(i int, what string) error {
		return fmt.Errorf("%s: binary round trip: %s then %s replied %s: %s", mode, cmds[i-1], cmds[i], vals[i], what)
	}
	for i, c := range cmds {
		a := c.Strs()
		name := upper(a[0])
		v := vals[i]
		if (name == "ECHO" || name == "PING") && len(a) == 2 {
			if v.K == kit.KSimple && v.S == "QUEUED" { // inside MULTI
				continue
			}
			if !c01IsBulk(v, a[1]) {
				return fmt.Errorf("%s: %s replied %s instead of the argument's bytes (%d bytes)", mode, c, v, len(a[1]))
			}
			st.Class("roundtrip:" + name)
			continue
		}
		if i == 0 {
			continue
		}
		w := cmds[i-1].Strs()
		wn := upper(w[0])
		wv := vals[i-1]
		if len(a) < 2 || len(w) < 3 || a[1] != w[1] && name != "KEYS" && name != "MGET" {
			continue
		}
		checked := true
		switch {
		case wn == "SET" && len(w) == 3 && wv.K == kit.KSimple && wv.S == "OK":
			k, val := w[1], w[2]
			switch {
			case name == "GET" && len(a) == 2:
				if !c01IsBulk(v, val) {
					return bad(i, "expected the value just stored")
				}
			case name == "STRLEN" && len(a) == 2:
				if v.K != kit.KInt || v.I != int64(len(val)) {
					return bad(i, fmt.Sprintf("expected %d", len(val)))
				}
			case name == "EXISTS":
				n := int64(0)
				for _, x := range a[1:] {
					if x == k {
						n++
					}
				}
				if n == int64(len(a)-1) && (v.K != kit.KInt || v.I != n) {
					return bad(i, fmt.Sprintf("expected %d", n))
				}
			case name == "KEYS" && len(a) == 2 && a[1] == "*":
				if miss, ok := c01Contains(v, k); !ok {
					return bad(i, fmt.Sprintf("key %q is not listed byte for byte", clip(miss)))
				}
			default:
				checked = false
			}
		case wn == "MSET" && len(w)%2 == 1 && wv.K == kit.KSimple && wv.S == "OK" && name == "MGET":
			last := map[string]string{}
			for j := 1; j+1 < len(w); j += 2 {
				last[w[j]] = w[j+1]
			}
			if v.K != kit.KArr || len(v.A) != len(a)-1 {
				return bad(i, "expected one element per key")
			}
			for j, k := range a[1:] {
				if val, ok := last[k]; ok && !c01IsBulk(v.A[j], val) {
					return bad(i, fmt.Sprintf("element %d is not the value just stored", j))
				}
			}
		case (wn == "RPUSH" || wn == "LPUSH") && wv.K == kit.KInt && wv.I >= int64(len(w)-2):
			els := w[2:]
			if wn == "LPUSH" { // list head now holds the elements in reverse order
				els = make([]string, len(w)-2)
				for j := range els {
					els[j] = w[len(w)-1-j]
				}
			}
			rpush := wn == "RPUSH"
			switch {
			case name == "LRANGE" && len(a) == 4 && a[2] == "0" && a[3] == "-1":
				if v.K != kit.KArr || int64(len(v.A)) != wv.I {
					return bad(i, fmt.Sprintf("expected %d elements", wv.I))
				}
				sub := v.A[:len(els)]
				if rpush {
					sub = v.A[len(v.A)-len(els):]
				}
				for j := range els {
					if !c01IsBulk(sub[j], els[j]) {
						return bad(i, fmt.Sprintf("pushed element %d did not come back byte for byte", j))
					}
				}
			case name == "LRANGE" && len(a) == 4 && (rpush && a[2] == "-1" && a[3] == "-1" || !rpush && a[2] == "0" && a[3] == "0"):
				want := els[0]
				if rpush {
					want = els[len(els)-1]
				}
				if v.K != kit.KArr || len(v.A) != 1 || !c01IsBulk(v.A[0], want) {
					return bad(i, "expected exactly the element pushed last")
				}
			case name == "LINDEX" && len(a) == 3 && (rpush && a[2] == "-1" || !rpush && a[2] == "0"):
				want := els[0]
				if rpush {
					want = els[len(els)-1]
				}
				if !c01IsBulk(v, want) {
					return bad(i, "expected the element pushed last")
				}
			default:
				checked = false
			}
		case wn == "HSET" && len(w) >= 4 && len(w)%2 == 0 && wv.K == kit.KInt:
			last := map[string]string{}
			for j := 2; j+1 < len(w); j += 2 {
				last[w[j]] = w[j+1]
			}
			switch {
			case name == "HGET" && len(a) == 3:
				if val, ok := last[a[2]]; ok && !c01IsBulk(v, val) {
					return bad(i, "expected the value just stored")
				} else if !ok {
					checked = false
				}
			case name == "HMGET" && len(a) >= 3:
				if v.K != kit.KArr || len(v.A) != len(a)-2 {
					return bad(i, "expected one element per field")
				}
				for j, f := range a[2:] {
					if val, ok := last[f]; ok && !c01IsBulk(v.A[j], val) {
						return bad(i, fmt.Sprintf("element %d is not the value just stored", j))
					}
				}
			case name == "HGETALL" && len(a) == 2:
				ss, ok := v.Strings()
				if !ok || len(ss)%2 != 0 || v.K != kit.KArr && v.K != kit.KMap {
					return bad(i, "expected field/value pairs")
				}
				have := map[string]string{}
				for j := 0; j+1 < len(ss); j += 2 {
					have[ss[j]] = ss[j+1]
				}
				for f, val := range last {
					if got, ok := have[f]; !ok || got != val {
						return bad(i, fmt.Sprintf("field %q / its value did not come back byte for byte", clip(f)))
					}
				}
			default:
				checked = false
			}
		case wn == "SADD" && wv.K == kit.KInt:
			ms := w[2:]
			switch {
			case name == "SISMEMBER" && len(a) == 3:
				in := false
				for _, m := range ms {
					in = in || m == a[2]
				}
				if !in {
					checked = false
				} else if cv := v.Canon(); cv.K != kit.KInt || cv.I != 1 {
					return bad(i, "expected 1: the member was just added")
				}
			case name == "SMEMBERS" && len(a) == 2:
				if v.K != kit.KArr && v.K != kit.KSet {
					return bad(i, "expected a collection")
				}
				if miss, ok := c01Contains(v, ms...); !ok {
					return bad(i, fmt.Sprintf("member %q did not come back byte for byte", clip(miss)))
				}
			case name == "SCARD" && len(a) == 2:
				d := map[string]bool{}
				for _, m := range ms {
					d[m] = true
				}
				if v.K != kit.KInt || v.I < int64(len(d)) {
					return bad(i, fmt.Sprintf("expected at least %d", len(d)))
				}
			default:
				checked = false
			}
		default:
			checked = false
		}
		if checked {
			st.Class("roundtrip:" + wn + ">" + name)
		}
	}
	return nil
}

// ---- evidence --------------------------------------------------------------------------------------------

func c01Hash(s string) string {
	h := fnv.New64a()
	h.Write([]byte(s))
	return fmt.Sprintf("%016x", h.Sum64())
}

func c01CanonText(c C01Case, offs []int, pauses []int) string {
	var sb strings.Builder
	fmt.Fprintf(&sb, "p%d\n", c.Proto)
	for _, cmd := range c.Cmds {
		for _, a := range cmd {
			if len(a) > 64 {
				fmt.Fprintf(&sb, "%d#%s ", len(a), c01Hash(string(a)))
			} else {
				fmt.Fprintf(&sb, "%d:%s ", len(a), a)
			}
		}
		sb.WriteByte('\n')
	}
	for i, o := range offs {
		fmt.Fprintf(&sb, "%d/%d,", o, pauses[i])
	}
	return sb.String()
}

type c01Sample struct {
	Proto int      `json:"proto"`
	Cmds  []string `json:"cmds"`
	Cuts  string   `json:"cuts"`
}

// ---- the property ----------------------------------------------------------------------------------------

func c01Run(c C01Case, st *kit.Stats) error {
	proto := 2
	if c.Proto == 3 {
		proto = 3
	}
	// normalise: drop empty commands (not "well-formed commands") and triggers of listed defects
	var cmds []kit.Argv
	for _, a := range c.Cmds {
		if len(a) == 0 {
			continue
		}
		if id := c01Excluded(a, proto); id != "" {
			st.Exclude(id)
			continue
		}
		if len(cmds) < c01MaxCmds {
			cmds = append(cmds, a)
		}
	}
	n := len(cmds)
	canonCmds := C01Case{Proto: proto, Cmds: cmds}
	nonce := "c01-sentinel-" + c01Hash(c01CanonText(canonCmds, nil, nil))
	all := append(append([]kit.Argv(nil), cmds...), kit.A("ECHO", nonce))
	encs, lays, total := c01Layout(all)

	// resolve the cuts
	pauseAt := map[int]int{}
	everyByte := c.EveryByte && total <= c01EveryByteMax
	if everyByte {
		for o := 1; o < total; o++ {
			pauseAt[o] = 0
			if c.PauseEvery > 0 && o%c.PauseEvery == 0 {
				pauseAt[o] = 1
			}
		}
	} else {
		for i, cut := range c.Cuts {
			if i >= c01MaxCuts {
				break
			}
			if cut.Class < 0 || cut.Cmd < 0 || cut.Arg < 0 || cut.Sub < 0 {
				continue
			}
			o := c01Resolve(cut, lays, total)
			if o <= 0 || o >= total {
				continue
			}
			p := cut.Pause
			if p < 0 {
				p = 0
			}
			if p > 2 {
				p = 2
			}
			if p > pauseAt[o] || pauseAt[o] == 0 {
				pauseAt[o] = p
			}
		}
	}
	offs := make([]int, 0, len(pauseAt))
	for o := range pauseAt {
		offs = append(offs, o)
	}
	sort.Ints(offs)
	pauses := make([]int, len(offs))
	for i, o := range offs {
		pauses[i] = pauseAt[o]
	}
	stream := bytes.Join(encs, nil)
	var cutSegs []c01Seg
	prev := 0
	for i, o := range offs {
		cutSegs = append(cutSegs, c01Seg{data: stream[prev:o], pause: pauses[i]})
		prev = o
	}
	cutSegs = append(cutSegs, c01Seg{data: stream[prev:]})
	refSegs := make([]c01Seg, len(encs))
	for i, e := range encs {
		refSegs[i] = c01Seg{data: e}
	}

	// three fresh emulators (started concurrently: start-up is the dominant fixed cost)
	nEmus := 3
	if len(offs) == 0 {
		nEmus = 2
	}
	emus := make([]*kit.Emu, nEmus)
	var wg sync.WaitGroup
	for i := range emus {
		wg.Add(1)
		go func(i int) { defer wg.Done(); emus[i] = kit.StartEmu("") }(i)
	}
	wg.Wait()
	defer func() {
		for _, e := range emus {
			e.Stop()
		}
	}()

	runs := make([]*c01Run1, 0, 3)
	exec := func(mode string, emu *kit.Emu, segs []c01Seg, lockstep bool) error {
		r, err := c01Exec(mode, emu, proto, segs, n+1, lockstep, all, st)
		if err != nil {
			return err
		}
		runs = append(runs, r)
		// oracle (1): N replies, then the sentinel's reply is exactly the nonce
		if s := r.vals[n]; !c01IsBulk(s, nonce) {
			return fmt.Errorf("%s: reply %d should be the sentinel's %q but is %s: the replies are out of step with the commands", mode, n+1, nonce, s)
		}
		// oracle (3)
		return c01RoundTrip(mode, cmds, r.vals[:n], st)
	}
	if err := exec("reference (one command per write)", emus[0], refSegs, true); err != nil {
		return err
	}
	if err := exec("pipeline (one write)", emus[1], []c01Seg{{data: stream}}, false); err != nil {
		return err
	}
	cutMode := fmt.Sprintf("cut at %v", offs)
	if len(offs) > 24 {
		cutMode = fmt.Sprintf("cut at %d offsets %v...", len(offs), offs[:24])
	}
	if everyByte {
		cutMode = fmt.Sprintf("one byte per write (%d bytes, pause every %d)", total, c.PauseEvery)
	}
	if len(offs) > 0 { // without cuts run (iii) would repeat run (ii)
		if err := exec(cutMode, emus[2], cutSegs, false); err != nil {
			return err
		}
	}
	// oracle (2)
	for _, r := range runs[1:] {
		if err := c01Compare(runs[0], r, all); err != nil {
			return err
		}
	}
	// oracle (1), last part: nothing follows the sentinel's reply. Every connection must have been quiet
	// for c01QuietMs after its last reply.
	for i := len(runs) - 1; i >= 0; i-- {
		r := runs[i]
		wait := time.Until(r.done.Add(c01QuietMs * time.Millisecond))
		if wait < time.Millisecond {
			wait = time.Millisecond
		}
		if left := r.conn.Drain(wait); len(left) > 0 {
			return fmt.Errorf("%s: %d unexpected bytes after the sentinel's reply (more replies than commands): %s", r.mode, len(left), c01Clip(left))
		}
	}

	// evidence
	st.Class(fmt.Sprintf("proto:%d", proto))
	switch {
	case everyByte:
		st.Class("cuts:byte-at-a-time")
	case len(offs) == 0:
		st.Class("cuts:0")
	case len(offs) <= 3:
		st.Class("cuts:1-3")
	case len(offs) <= 12:
		st.Class("cuts:4-12")
	default:
		st.Class("cuts:13-40")
	}
	offBoundary := false
	hit := map[string]bool{}
	nPause := 0
	for i, o := range offs {
		cl := c01Classify(o, lays)
		hit[cl] = true
		if cl != "boundary" {
			offBoundary = true
		}
		if pauses[i] > 0 {
			nPause++
		}
	}
	for cl := range hit {
		st.Class("cut:" + cl)
	}
	if nPause > 0 {
		st.Class("cuts-with-pause")
	}
	big, crlf, nonUTF8, empty, huge := false, false, false, false, false
	for _, cmd := range cmds {
		for _, a := range cmd {
			s := string(a)
			big = big || len(s) >= 8193
			huge = huge || len(s) >= 64*1024
			crlf = crlf || strings.ContainsAny(s, "\r\n")
			nonUTF8 = nonUTF8 || !utf8.ValidString(s)
			empty = empty || s == ""
		}
		st.Class("cmd:" + c01CmdClass(cmd))
	}
	for name, on := range map[string]bool{"arg:>8192": big, "arg:>=64KiB": huge, "arg:CR/LF-inside": crlf, "arg:non-UTF-8": nonUTF8, "arg:empty": empty} {
		if on {
			st.Class(name)
		}
	}
	for i, v := range runs[0].vals[:n] {
		if v.IsErr() {
			st.Class("reply:error")
			if !c01Known[strings.ToLower(string(cmds[i][0]))] {
				st.Class("reply:error-quoting-input")
			}
		}
	}
	if total > 8192 {
		st.Class("stream:>8KiB")
	}
	if (n >= 3 && offBoundary) || big || crlf {
		cuts := fmt.Sprintf("%v", offs)
		if everyByte {
			cuts = fmt.Sprintf("every byte of %d", total)
		} else if len(offs) > 16 {
			cuts = fmt.Sprintf("%v...(%d cuts)", offs[:16], len(offs))
		}
		cuts += fmt.Sprintf(" pauses=%d", nPause)
		smp := c01Sample{Proto: proto, Cuts: cuts}
		for i, cmd := range cmds {
			if i >= 12 {
				smp.Cmds = append(smp.Cmds, fmt.Sprintf("...(%d commands)", n))
				break
			}
			smp.Cmds = append(smp.Cmds, cmd.String())
		}
		st.NonTrivial(c01CanonText(canonCmds, offs, pauses), smp)
	}
	return nil
}

func c01CmdClass(cmd kit.Argv) string {
	name := strings.ToLower(string(cmd[0]))
	if !c01Known[name] {
		return "(unknown name)"
	}
	return strings.ToUpper(name)
}

func TestC01(t *testing.T) {
	kit.Check(t, kit.Prop[C01Case]{ID: "C01", Gen: c01Gen, Run: c01Run})
}
