//go:build verif

package props

import (
	"fmt"
	"strconv"
	"strings"
	"testing"

	"pgregory.net/rapid"

	"verifharness/kit"
	"verifharness/model"
)

// C11 — blocking pops: no lost wake-up, longest waiter first, exactly-once delivery.

type C11Action struct {
	Kind int      `json:"kind"` // 0 start a blocking command, 1 release some parked client, 2 push, 3 competing consumer, 5 drive client Who to sleep, 6 release client Who
	Who  int      `json:"who"`
	Argv kit.Argv `json:"argv,omitempty"`
}

type C11Case struct {
	Blockers int         `json:"blockers"`
	Actions  []C11Action `json:"actions"`
}

var c11Keys = []string{"q1", "q2", "q3"}

func c11Block(t *rapid.T) []string {
	k := pick(t, "k", c11Keys...)
	k2 := pick(t, "k2", c11Keys...)
	side := func() string { return pick(t, "side", "LEFT", "RIGHT") }
	switch rapid.IntRange(0, 7).Draw(t, "bcmd") {
	case 0, 1:
		return []string{"BLPOP", k, "0"}
	case 2:
		return []string{"BRPOP", k, k2, "0"}
	case 3:
		return []string{"BLPOP", k, k2, pick(t, "k3", c11Keys...), "0"}
	case 4:
		return []string{"BLMOVE", k, pick(t, "dst", "q1", "q2", "out"), side(), side(), "0"}
	case 5:
		return []string{"BRPOPLPUSH", k, pick(t, "dst", "q2", "q3", "out"), "0"}
	case 6:
		return []string{"BLMPOP", "0", "2", k, k2, side(), "COUNT", pick(t, "c", "1", "2")}
	default:
		return []string{"BLMPOP", "0", "1", k, side()}
	}
}

func c11Gen(t *rapid.T) C11Case {
	c := C11Case{Blockers: rapid.IntRange(2, 4).Draw(t, "blockers")}
	n := rapid.IntRange(6, 40).Draw(t, "actions")
	el := 0
	for i := 0; i < n; i++ {
		a := C11Action{Kind: weighted(t, "kind", []int{4, 8, 4, 3, 2, 0, 0, 2, 2}), Who: rapid.IntRange(0, 11).Draw(t, "who")}
		if a.Kind == 8 {
			// scripted adversary: a client waiting for two lists is woken for the second one, but by the time it looks
			// again the first one has elements too; it is served from the first and leaves. Whoever else waits for
			// the second list (and for the first, if more is left there) must not be forgotten.
			k1, k2 := "q1", "q2"
			if rapid.Bool().Draw(t, "swap") {
				k1, k2 = "q3", "q1"
			}
			w := rapid.IntRange(0, c.Blockers-1).Draw(t, "mw")
			w2 := (w + 1) % c.Blockers
			c.Actions = append(c.Actions,
				C11Action{Kind: 0, Who: w, Argv: kit.A(pick(t, "mb", []string{"BLPOP", k1, k2, "0"}, []string{"BRPOP", k1, k2, "0"}, []string{"BLMPOP", "0", "2", k1, k2, "LEFT"})...)},
				C11Action{Kind: 5, Who: w},
				C11Action{Kind: 0, Who: w2, Argv: kit.A(pick(t, "mb2", []string{"BLPOP", k2, "0"}, []string{"BLMOVE", k2, "out", "LEFT", "RIGHT", "0"}, []string{"BRPOP", k2, k1, "0"})...)},
				C11Action{Kind: 5, Who: w2})
			if c.Blockers > 2 && rapid.Bool().Draw(t, "third") {
				w3 := (w + 2) % c.Blockers
				c.Actions = append(c.Actions, C11Action{Kind: 0, Who: w3, Argv: kit.A("BLPOP", pick(t, "k3", k1, k2), "0")}, C11Action{Kind: 5, Who: w3})
			}
			c.Actions = append(c.Actions, C11Action{Kind: 2, Argv: kit.A("RPUSH", k2, "e"+strconv.Itoa(el))})
			el++
			push1 := []string{"RPUSH", k1}
			for j := rapid.IntRange(1, 3).Draw(t, "n1"); j > 0; j-- {
				push1 = append(push1, "e"+strconv.Itoa(el))
				el++
			}
			c.Actions = append(c.Actions, C11Action{Kind: pick(t, "how1", 2, 2, 7), Argv: kit.A(push1...)}, C11Action{Kind: 6, Who: w})
			continue
		}
		if a.Kind == 4 {
			// scripted adversary: a waiter goes to sleep, is woken by a push, and a competing consumer
			// takes the element before the waiter retries; then more pushes follow
			k := pick(t, "sk", c11Keys...)
			w := rapid.IntRange(0, c.Blockers-1).Draw(t, "sw")
			c.Actions = append(c.Actions,
				C11Action{Kind: 0, Who: w, Argv: kit.A(pick(t, "sb", []string{"BLPOP", k, "0"}, []string{"BRPOP", k, "0"}, []string{"BLMOVE", k, "out", "LEFT", "RIGHT", "0"}, []string{"BLMPOP", "0", "1", k, "LEFT"})...)},
				C11Action{Kind: 5, Who: w})
			if rapid.Bool().Draw(t, "second") {
				w2 := (w + 1) % c.Blockers
				c.Actions = append(c.Actions, C11Action{Kind: 0, Who: w2, Argv: kit.A("BLPOP", k, "0")}, C11Action{Kind: 5, Who: w2})
			}
			c.Actions = append(c.Actions, C11Action{Kind: 2, Argv: kit.A("RPUSH", k, "e"+strconv.Itoa(el))})
			el++
			c.Actions = append(c.Actions, C11Action{Kind: 3, Argv: kit.A(pick(t, "steal", []string{"LPOP", k}, []string{"RPOP", k}, []string{"DEL", k}, []string{"LMOVE", k, "out", "LEFT", "LEFT"})...)})
			c.Actions = append(c.Actions, C11Action{Kind: 6, Who: w})
			continue
		}
		switch a.Kind {
		case 0:
			a.Argv = kit.A(c11Block(t)...)
		case 7:
			// a push (or a move onto a watched list) queued in a transaction
			k := pick(t, "k", c11Keys...)
			if rapid.IntRange(0, 3).Draw(t, "txmove") == 0 {
				a.Argv = kit.A(pick(t, "txm", []string{"LMOVE", pick(t, "src", c11Keys...), k, "LEFT", "RIGHT"}, []string{"RPOPLPUSH", pick(t, "src2", c11Keys...), k})...)
				break
			}
			argv := []string{pick(t, "push", "LPUSH", "RPUSH", "RPUSHX"), k}
			for j := rapid.IntRange(1, 2).Draw(t, "n"); j > 0; j-- {
				argv = append(argv, "e"+strconv.Itoa(el))
				el++
			}
			a.Argv = kit.A(argv...)
		case 2:
			argv := []string{pick(t, "push", "LPUSH", "RPUSH"), pick(t, "k", c11Keys...)}
			for j := rapid.IntRange(1, 3).Draw(t, "n"); j > 0; j-- {
				argv = append(argv, "e"+strconv.Itoa(el))
				el++
			}
			a.Argv = kit.A(argv...)
		case 3:
			k := pick(t, "k", c11Keys...)
			a.Argv = kit.A(pick(t, "consume",
				[]string{"LPOP", k}, []string{"RPOP", k}, []string{"LPOP", k, "2"}, []string{"LMOVE", k, pick(t, "dst", "q1", "q2", "q3", "out"), "LEFT", "RIGHT"},
				[]string{"RPOPLPUSH", k, pick(t, "dst2", "q1", "q3", "out")}, []string{"LTRIM", k, "1", "-1"}, []string{"LTRIM", k, "0", "0"}, []string{"DEL", k},
				[]string{"LLEN", k}, []string{"LRANGE", k, "0", "-1"}, []string{"FLUSHDB"}, []string{"FLUSHALL"}, []string{"RENAME", k, "out"},
			)...)
		}
		c.Actions = append(c.Actions, a)
	}
	return c
}

func (c C11Case) canon() string {
	var sb strings.Builder
	fmt.Fprintf(&sb, "%d|", c.Blockers)
	for _, a := range c.Actions {
		fmt.Fprintf(&sb, "%d:%d:%s;", a.Kind, a.Who, a.Argv)
	}
	return sb.String()
}

func c11Run(c C11Case, st *kit.Stats) (err error) {
	s, err := newSched(st, c.Blockers)
	if err != nil {
		return err
	}
	defer s.close()
	s.strictHandOn = true
	defer func() {
		if err != nil {
			err = fmt.Errorf("%v\nschedule:\n%s", err, strings.Join(s.log, "\n"))
		}
	}()
	pusher, consumer := s.emu.Dial(), s.emu.Dial()
	pse, cse := model.NewSession(100), model.NewSession(101)
	s.sess = append(s.sess, pse, cse)
	for _, a := range c.Actions {
		switch a.Kind {
		case 0:
			b := s.blockers[a.Who%len(s.blockers)]
			if b.state == "idle" {
				st.Class("start:" + string(a.Argv[0]))
				if err := s.start(b, a.Argv.Strs()); err != nil {
					return err
				}
				break
			}
			fallthrough
		case 1:
			p := s.parked()
			if len(p) == 0 {
				continue
			}
			b := p[a.Who%len(p)]
			st.Class("release-from:" + b.point)
			if err := s.resume(b); err != nil {
				return err
			}
		case 5:
			// drive one client until it sleeps in select (or completes)
			b := s.blockers[a.Who%len(s.blockers)]
			for i := 0; i < 8 && b.state == "parked"; i++ {
				if err := s.resume(b); err != nil {
					return err
				}
			}
		case 6:
			b := s.blockers[a.Who%len(s.blockers)]
			if b.state == "parked" {
				st.Class("release-from:" + b.point)
				if err := s.resume(b); err != nil {
					return err
				}
			}
		case 2:
			st.Class("push")
			if err := s.atomic(pusher, pse, a.Argv.Strs()); err != nil {
				return err
			}
		case 7:
			st.Class("push-inside-MULTI-EXEC")
			if err := s.atomicTx(pusher, pse, a.Argv.Strs()); err != nil {
				return err
			}
		case 3:
			st.Class("consumer:" + string(a.Argv[0]))
			if err := s.atomic(consumer, cse, a.Argv.Strs()); err != nil {
				return err
			}
		}
		if err := s.checkNoLostWakeup(); err != nil {
			return err
		}
	}
	if err := s.finish(pusher, pse); err != nil {
		return err
	}
	// conservation: what is left in the lists is exactly what the model says
	d, derr := dumpEmu(pusher)
	if derr != nil {
		return derr
	}
	n := nowMs()
	if err := compareDump(d, s.srv.DBs[0], model.Time{Lo: n, Hi: n}); err != nil {
		return fmt.Errorf("final state: %v", err)
	}
	if s.flags["stolen"] > 0 || s.flags["multiwake"] > 0 {
		st.NonTrivial(c.canon(), s.log)
	}
	return nil
}

func TestC11(t *testing.T) {
	kit.Check(t, kit.Prop[C11Case]{ID: "C11", Gen: c11Gen, Run: c11Run})
}
