package props

import (
	"fmt"
	"strconv"
	"testing"

	"pgregory.net/rapid"

	"verifharness/kit"
)

// C15 part B — HELLO queued in a transaction.
//
// A connection on protocol p queues HELLO q between MULTI and the end of the transaction. If the transaction
// runs, HELLO q has succeeded and the connection speaks q from then on; if it does not run (DISCARD, a rejected
// command in the queue, a watched key changed) nothing has happened and it keeps speaking p. How the EXEC reply
// itself is encoded while the protocol changes under it is left open; what is checked is the connection afterwards.

type C15BCase struct {
	From   int `json:"from"`   // protocol before
	To     int `json:"to"`     // HELLO <to> queued
	Before int `json:"before"` // other commands queued in front of it
	After  int `json:"after"`  // and behind it
	End    int `json:"end"`    // 0 EXEC 1 DISCARD 2 EXEC after a rejected command 3 EXEC after a watched key changed
}

func c15BGen(t *rapid.T) C15BCase {
	return C15BCase{From: pick(t, "from", 2, 3), To: pick(t, "to", 2, 3), Before: rapid.IntRange(0, 2).Draw(t, "before"), After: rapid.IntRange(0, 2).Draw(t, "after"), End: weighted(t, "end", []int{5, 2, 2, 2})}
}

func c15BRun(c C15BCase, st *kit.Stats) error {
	emu := kit.StartEmu("")
	defer emu.Stop()
	conn, other := emu.Dial(), emu.Dial()
	conn.Proto = 0 // lenient: both protocols' types are accepted by the parser, the checks below look at the types
	conn.Do("HSET", "h", "f", "v")
	if c.From == 3 {
		conn.Do("HELLO", "3")
	}
	if c.End == 3 {
		conn.Do("WATCH", "w")
		other.Do("SET", "w", "changed")
	}
	conn.Do("MULTI")
	for i := 0; i < c.Before; i++ {
		conn.Do("PING")
	}
	conn.Do("HELLO", strconv.Itoa(c.To))
	for i := 0; i < c.After; i++ {
		conn.Do("GET", "nosuchkey")
	}
	if c.End == 2 {
		conn.Do("NOSUCHCOMMAND")
	}
	end := "EXEC"
	if c.End == 1 {
		end = "DISCARD"
	}
	ev, err := conn.Do(end)
	if err != nil {
		return fmt.Errorf("%s: %v", end, err)
	}
	ran := c.End == 0
	if ran != (ev.K == kit.KArr) {
		return fmt.Errorf("%s replied %s (the transaction %v)", end, ev, map[bool]string{true: "must run", false: "must not run"}[ran])
	}
	want := c.From
	if ran {
		want = c.To
	}
	desc := fmt.Sprintf("a connection on RESP%d queued HELLO %d in a transaction that ended with %s (%s); afterwards", c.From, c.To, end, []string{"ran", "discarded", "aborted by a rejected command", "aborted by a watched key"}[c.End])
	hv, err := conn.Do("HELLO")
	if err != nil {
		return fmt.Errorf("%s HELLO: %v", desc, err)
	}
	if (want == 3) != (hv.K == kit.KMap) {
		return fmt.Errorf("%s it must speak RESP%d, but HELLO replies a %s", desc, want, hv.K)
	}
	for i := 0; i+1 < len(hv.A); i += 2 {
		if hv.A[i].S == "proto" && hv.A[i+1].I != int64(want) {
			return fmt.Errorf("%s HELLO reports proto %d, expected %d", desc, hv.A[i+1].I, want)
		}
	}
	if gv, err := conn.Do("HGETALL", "h"); err != nil || (want == 3) != (gv.K == kit.KMap) {
		return fmt.Errorf("%s it must speak RESP%d, but HGETALL replies %s %v", desc, want, gv, err)
	}
	st.Class(fmt.Sprintf("end:%d", c.End))
	st.NonTrivial(fmt.Sprintf("%+v", c), c)
	return nil
}

func TestC15B(t *testing.T) {
	kit.Check(t, kit.Prop[C15BCase]{ID: "C15B", Gen: c15BGen, Run: c15BRun})
}
