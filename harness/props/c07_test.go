package props

import (
	"fmt"
	"sort"
	"strconv"
	"strings"
	"testing"
	"time"

	"pgregory.net/rapid"

	"verifharness/kit"
	"verifharness/model"
)

// C07 — expiry: keys vanish for every command at the deadline; per-command TTL rules.
//
// A (differential, model-free): "a key whose deadline has passed but whose object is still stored
//    behaves exactly like a deleted key" — twin databases on one emulator.
// B (model): the deadline that TTL/PTTL/EXPIRETIME/PEXPIRETIME report after sequences of
//    SET EX/PX/EXAT/PXAT/KEEPTTL, GETEX, EXPIRE* NX/XX/GT/LT, PERSIST and value-modifying commands.
// C (real time): reads around real deadline crossings, asserted only outside the uncertainty window.

// ---- A ------------------------------------------------------------------------------------------------------

type C07ACase struct {
	Stale   []string   `json:"stale"` // keys made stale in db1 / deleted in db2
	How     []int      `json:"how"`   // per stale key: the way it is made stale
	Program []kit.Argv `json:"program"`
}

var c07Universe = []string{"ks", "kl", "kh", "kz", "ks1", "kl1", "kh1", "kz1", "a", "b"}

func c07Key(t *rapid.T) string { return pick(t, "k", c07Universe...) }

var unorderedCmds = map[string]bool{"SMEMBERS": true, "HGETALL": true, "HKEYS": true, "HVALS": true, "KEYS": true, "SINTER": true, "SUNION": true, "SDIFF": true}
var randomCmds = map[string]bool{"RANDOMKEY": true, "SRANDMEMBER": true, "HRANDFIELD": true}

func c07AGen(t *rapid.T) C07ACase {
	var c C07ACase
	n := rapid.IntRange(1, 5).Draw(t, "nstale")
	perm := rapid.Permutation(c07Universe[:8]).Draw(t, "which")
	for i := 0; i < n; i++ {
		c.Stale = append(c.Stale, perm[i])
		c.How = append(c.How, rapid.IntRange(0, 3).Draw(t, "how"))
	}
	steps := rapid.IntRange(4, 25).Draw(t, "steps")
	for i := 0; i < steps; i++ {
		switch weighted(t, "kind", []int{12, 1, 1, 1, 2, 2, 2, 2}) {
		case 0:
			tm := cmdTable[rapid.IntRange(0, len(cmdTable)-1).Draw(t, "tmpl")]
			if tm.name == "TTL" {
				// relative readers differ between the two connections by clock; C07B covers them
				c.Program = append(c.Program, kit.A(pick(t, "abs", "PEXPIRETIME", "EXPIRETIME"), c07Key(t)))
				continue
			}
			keys := make([]string, tm.slots)
			for j := range keys {
				// bias towards the stale keys
				if rapid.Bool().Draw(t, "stalekey") {
					keys[j] = c.Stale[rapid.IntRange(0, len(c.Stale)-1).Draw(t, "si")]
				} else {
					keys[j] = c07Key(t)
				}
			}
			c.Program = append(c.Program, kit.A(tm.mk(t, keys)...))
		case 1:
			c.Program = append(c.Program, kit.A("RANDOMKEY"))
		case 2:
			c.Program = append(c.Program, kit.A("DBSIZE"))
		case 3:
			c.Program = append(c.Program, kit.A("KEYS", pick(t, "pat", "*", "k*", "k?1")))
		case 4:
			c.Program = append(c.Program, kit.A("FULLSCAN"))
		case 5:
			k := c.Stale[rapid.IntRange(0, len(c.Stale)-1).Draw(t, "si")]
			c.Program = append(c.Program, kit.A("WATCHEXEC", k, pick(t, "probe", "read", "none")))
		case 6:
			k := c.Stale[rapid.IntRange(0, len(c.Stale)-1).Draw(t, "si")]
			c.Program = append(c.Program, kit.A(pick(t, "b", "BLPOP", "BRPOP"), k, c07Key(t), "0.01"))
		case 7:
			k := c.Stale[rapid.IntRange(0, len(c.Stale)-1).Draw(t, "si")]
			switch rapid.IntRange(0, 2).Draw(t, "bl") {
			case 0:
				c.Program = append(c.Program, kit.A("BLMOVE", k, c07Key(t), "LEFT", "RIGHT", "0.01"))
			case 1:
				c.Program = append(c.Program, kit.A("BLMPOP", "0.01", "2", k, c07Key(t), "LEFT"))
			default:
				c.Program = append(c.Program, kit.A("SORT", pick(t, "src", "kl", "kz", "kl1", "kz1"), "STORE", k))
			}
		}
	}
	return c
}

func fullScan(c *kit.Conn) (kit.Value, error) {
	seen := map[string]bool{}
	cursor := "0"
	for i := 0; i < 5000; i++ {
		r, err := c.Do("SCAN", cursor, "COUNT", "5")
		if err != nil {
			return kit.Value{}, err
		}
		if r.K != kit.KArr || len(r.A) != 2 || r.A[1].K != kit.KArr {
			return r, nil
		}
		for _, e := range r.A[1].A {
			seen[e.S] = true
		}
		cursor = r.A[0].S
		if cursor == "0" {
			var ks []string
			for k := range seen {
				ks = append(ks, k)
			}
			sort.Strings(ks)
			return kit.Bulks(ks...), nil
		}
	}
	return kit.Err("SCAN did not terminate"), nil
}

// c07Exec runs one (pseudo-)command on a connection.
func c07Exec(c *kit.Conn, argv []string) (kit.Value, error) {
	switch argv[0] {
	case "FULLSCAN":
		return fullScan(c)
	case "WATCHEXEC":
		// WATCH k; optionally read it; MULTI; PING; EXEC -> must run iff nothing was modified (nothing is)
		var out []kit.Value
		seq := [][]string{{"WATCH", argv[1]}}
		if argv[2] == "read" {
			seq = append(seq, []string{"EXISTS", argv[1]})
		}
		seq = append(seq, []string{"MULTI"}, []string{"PING"}, []string{"EXEC"})
		for _, s := range seq {
			v, err := c.Do(s...)
			if err != nil {
				return kit.Value{}, err
			}
			out = append(out, v)
		}
		return kit.Arr(out...), nil
	}
	return c.Do(argv...)
}

func c07ARun(c C07ACase, st *kit.Stats) error {
	emu := kit.StartEmu("")
	defer emu.Stop()
	c1, c2 := emu.Dial(), emu.Dial()
	for i, conn := range []*kit.Conn{c1, c2} {
		if v, err := conn.Do("SELECT", strconv.Itoa(i+1)); err != nil || v.IsErr() {
			return fmt.Errorf("SELECT failed: %v %v", v, err)
		}
		for _, s := range setupTyped() {
			if v, err := conn.Do(s...); err != nil || v.IsErr() {
				return fmt.Errorf("setup %v failed: %v %v", s, v, err)
			}
		}
	}
	isStale := map[string]bool{}
	for i, k := range c.Stale {
		isStale[k] = true
		var mk []string
		switch c.How[i] {
		case 0:
			mk = []string{"PEXPIREAT", k, "1000000000000"} // 2001
		case 1:
			mk = []string{"EXPIRE", k, "-1"}
		case 2:
			mk = []string{"UNLINK", k}
		default:
			mk = []string{"EXPIREAT", k, "1"}
		}
		st.Class("stale-by:" + mk[0])
		v1, err1 := c1.Do(mk...)
		v2, err2 := c2.Do("DEL", k)
		if err1 != nil || err2 != nil {
			return fmt.Errorf("making %q stale: %v %v", k, err1, err2)
		}
		if !kit.Equal(v1, kit.Int(1)) || !kit.Equal(v2, kit.Int(1)) {
			return fmt.Errorf("making %q stale with %v replied %s (DEL replied %s), expected 1", k, mk, v1, v2)
		}
	}
	multi := false
	for i, step := range c.Program {
		argv := step.Strs()
		name := upper(argv[0])
		v1, err1 := c07Exec(c1, argv)
		v2, err2 := c07Exec(c2, argv)
		if err1 != nil || err2 != nil {
			return fmt.Errorf("step %d %s: no well-formed reply: stale-db: %v, deleted-db: %v", i, step, err1, err2)
		}
		st.Class("cmd:" + name)
		touches := 0
		for _, a := range argv[1:] {
			if isStale[a] {
				touches++
			}
		}
		if touches > 0 && len(argv) > 2 {
			multi = true
		}
		var same bool
		switch {
		case randomCmds[name]:
			same = v1.K == v2.K && (v1.K != kit.KArr || len(v1.A) == len(v2.A))
			if name == "RANDOMKEY" && v1.K == kit.KBulk {
				// the key returned by the stale database must exist there
				e, _ := c1.Do("EXISTS", v1.S)
				if !kit.Equal(e, kit.Int(1)) {
					return fmt.Errorf("step %d RANDOMKEY returned %q which does not exist (EXISTS=%s)", i, v1.S, e)
				}
			}
		case unorderedCmds[name]:
			same = (v1.IsErr() && v2.IsErr() && v1.ErrClass() == v2.ErrClass()) || kit.EqualUnordered(v1, v2)
		case v1.IsErr() || v2.IsErr():
			same = v1.IsErr() && v2.IsErr() && v1.ErrClass() == v2.ErrClass()
		case name == "PEXPIRETIME" || name == "EXPIRETIME":
			same = v1.K == kit.KInt && v2.K == kit.KInt && (v1.I == v2.I || (v1.I > 0 && v2.I > 0 && abs64(v1.I-v2.I) <= 1000))
		default:
			same = kit.Equal(v1, v2)
		}
		if !same {
			return fmt.Errorf("step %d %s: database with stale keys %v replied %s, database where they were deleted replied %s", i, step, c.Stale, v1, v2)
		}
	}
	d1, err1 := dumpEmu(c1)
	d2, err2 := dumpEmu(c2)
	if err1 != nil || err2 != nil {
		return fmt.Errorf("final dump failed: %v %v", err1, err2)
	}
	if d1.DBSize != d2.DBSize {
		return fmt.Errorf("final DBSIZE differs: stale-db %d, deleted-db %d", d1.DBSize, d2.DBSize)
	}
	if len(d1.Keys) != len(d2.Keys) {
		return fmt.Errorf("final key sets differ: stale-db %v, deleted-db %v", keysOf(d1), keysOf(d2))
	}
	for k, a := range d1.Keys {
		b, ok := d2.Keys[k]
		if ok && a.PExp > 0 && b.PExp > 0 && abs64(a.PExp-b.PExp) <= 1000 {
			// relative deadlines set by the program differ by the few ms between the two connections
			b.PExp = a.PExp
		}
		if !ok || a != b {
			return fmt.Errorf("final state of key %q differs: stale-db %+v, deleted-db %+v (present=%v)", k, a, b, ok)
		}
	}
	if multi {
		var sb strings.Builder
		fmt.Fprintf(&sb, "%v %v|", c.Stale, c.How)
		for _, s := range c.Program {
			sb.WriteString(s.String() + ";")
		}
		sample := map[string]any{"stale": c.Stale, "program": SeqCase{Steps: c.Program}.Sample()}
		st.NonTrivial(sb.String(), sample)
	}
	return nil
}

func abs64(x int64) int64 {
	if x < 0 {
		return -x
	}
	return x
}

func keysOf(d dbDump) []string {
	var ks []string
	for k := range d.Keys {
		ks = append(ks, k)
	}
	sort.Strings(ks)
	return ks
}

func TestC07A(t *testing.T) {
	kit.Check(t, kit.Prop[C07ACase]{ID: "C07A", Gen: c07AGen, Run: c07ARun})
}

// ---- B ------------------------------------------------------------------------------------------------------

var c07Abs = []string{"4102444800000", "4102444800123", "4099999999999", "4200000000000"}
var c07AbsS = []string{"4102444800", "4099999999", "4200000000"}

func c07BStep(t *rapid.T) kit.Argv {
	k := pick(t, "k", "ks", "kl", "kh", "kz", "ks", "kmiss")
	opt := func() []string {
		if rapid.IntRange(0, 1).Draw(t, "hasopt") == 0 {
			return nil
		}
		return []string{randCase(t, pick(t, "opt", "NX", "XX", "GT", "LT"))}
	}
	switch weighted(t, "cmd", []int{10, 6, 4, 6, 8, 3, 2, 4}) {
	case 7:
		// commands aimed at a key of any type: on a type they do not serve they must fail and leave the deadline alone
		return kit.A(pick(t, "anytype",
			[]string{"GETEX", k, "EX", "100"}, []string{"GETEX", k, "PERSIST"}, []string{"GETEX", k, "PXAT", "1000"}, []string{"GETEX", k, "PX", "5000000"}, []string{"GETEX", k, "EXAT", "4102444800"}, []string{"GETEX", k},
			[]string{"GETDEL", k}, []string{"GETSET", k, "v"}, []string{"APPEND", k, "x"}, []string{"INCR", k}, []string{"SETRANGE", k, "0", "x"}, []string{"INCRBYFLOAT", k, "1"},
			[]string{"RPUSH", k, "x"}, []string{"LPOP", k}, []string{"HSET", k, "f", "v"}, []string{"HDEL", k, "f"}, []string{"SADD", k, "m"}, []string{"SREM", k, "m"}, []string{"SETBIT", k, "1", "1"}, []string{"SETBIT", k, "9", "1"}, []string{"SETBIT", k, "15", "0"}, []string{"SETBIT", k, "100", "1"}, []string{"BITFIELD", k, "SET", "u8", "8", "65"},
			[]string{"BITFIELD", k, "INCRBY", "u4", "12", "1"}, []string{"BITFIELD", k, "SET", "u8", "#3", "1"}, []string{"SETRANGE", k, "1", "z"}, []string{"SETRANGE", k, "5", "zz"}, []string{"BITFIELD", k, "OVERFLOW", "FAIL", "INCRBY", "u2", "14", "3"},
			[]string{"LMOVE", "kl", k, "LEFT", "RIGHT"}, []string{"SMOVE", "kz", k, "1"}, []string{"SUNIONSTORE", "kz2", "kz", k}, []string{"SETNX", k, "v"}, []string{"HINCRBYFLOAT", k, "f", "inf"},
		)...)
	case 0:
		var a []string
		switch rapid.IntRange(0, 4).Draw(t, "which") {
		case 0:
			a = []string{"PEXPIREAT", k, pick(t, "v", c07Abs...)}
		case 1:
			a = []string{"EXPIREAT", k, pick(t, "v", c07AbsS...)}
		case 2:
			a = []string{"EXPIRE", k, pick(t, "v", "1000", "100000", "86400", "5000")}
		case 3:
			a = []string{"PEXPIRE", k, pick(t, "v", "1000000", "123456789", "5000000")}
		default:
			// deadline in the past: the key must be gone at once
			a = pick(t, "past", []string{"EXPIRE", k, "-1"}, []string{"PEXPIRE", k, "0"}, []string{"PEXPIREAT", k, "1000000000000"}, []string{"EXPIREAT", k, "1"})
		}
		return kit.A(append(a, opt()...)...)
	case 1:
		return kit.A(pick(t, "r", "TTL", "PTTL", "EXPIRETIME", "PEXPIRETIME"), k)
	case 2:
		return kit.A("PERSIST", k)
	case 3:
		// (also over keys that hold another type: SET replaces them, KEEPTTL keeps their deadline)
		a := []string{"SET", pick(t, "setk", "ks", "ks", k), pick(t, "v", "1", "abc")}
		switch rapid.IntRange(0, 3).Draw(t, "e") {
		case 0:
			a = append(a, "KEEPTTL")
		case 1:
			a = append(a, c02ExpireOpt(t, false)...)
		}
		return kit.A(a...)
	case 4:
		// value-modifying commands: in place keeps, replacing clears
		return kit.A(pick(t, "mod",
			[]string{"APPEND", "ks", "x"}, []string{"INCR", "ks"}, []string{"SETRANGE", "ks", "1", "z"}, []string{"INCRBYFLOAT", "ks", "0.5"},
			[]string{"GETSET", "ks", "5"}, []string{"MSET", "ks", "7"}, []string{"GETEX", "ks"}, []string{"GETEX", "ks", "PERSIST"},
			[]string{"GETEX", "ks", "PXAT", "4102444800999"}, []string{"GETEX", "ks", "EX", "1000"}, []string{"SETNX", "ks", "9"},
			[]string{"RPUSH", "kl", "q"}, []string{"LPOP", "kl"}, []string{"LSET", "kl", "0", "w"}, []string{"LINSERT", "kl", "BEFORE", "1", "n"}, []string{"LTRIM", "kl", "0", "5"},
			[]string{"HSET", "kh", "f", "9"}, []string{"HDEL", "kh", "g"}, []string{"HINCRBY", "kh", "f", "1"}, []string{"HSETNX", "kh", "n", "1"},
			[]string{"SADD", "kz", "new"}, []string{"SREM", "kz", "1"}, []string{"SMOVE", "kz", "kz2", "2"},
			[]string{"SUNIONSTORE", "kz", "kz", "kz2"}, []string{"SINTERSTORE", "kz", "kz", "kz"}, []string{"SDIFFSTORE", "kz", "kz", "kmiss"},
			[]string{"RENAME", "ks", "ks"}, []string{"RENAME", "kl", "tmp"}, []string{"RENAME", "tmp", "kl"}, []string{"COPY", "kh", "kh2", "REPLACE"}, []string{"PEXPIRETIME", "kh2"},
			[]string{"SORT", "kl", "ALPHA", "STORE", "kl"}, []string{"LMOVE", "kl", "kl", "LEFT", "RIGHT"},
		)...)
	case 5:
		return kit.A("EXISTS", k)
	default:
		// recreate keys that were expired away
		return kit.A(pick(t, "re", []string{"SET", "ks", "10"}, []string{"RPUSH", "kl", "3", "1", "2"}, []string{"HSET", "kh", "f", "1", "g", "x"}, []string{"SADD", "kz", "1", "2", "m"})...)
	}
}

// c07Single: a list, set or hash with exactly one element and a deadline, then a command that takes that
// element out and puts one back inside a single command (rotation onto itself, move onto itself, overwrite):
// the key is "modified in place" and keeps its deadline, although it passes through an empty state on the way.
func c07Single(t *rapid.T) []kit.Argv {
	ty := rapid.IntRange(0, 2).Draw(t, "sty")
	k := []string{"kl", "kz", "kh"}[ty]
	out := []kit.Argv{kit.A("DEL", k)}
	switch ty {
	case 0:
		out = append(out, kit.A("RPUSH", k, "only"))
	case 1:
		out = append(out, kit.A("SADD", k, "only"))
	default:
		out = append(out, kit.A("HSET", k, "only", "1"))
	}
	out = append(out, kit.A(pick(t, "sdl", []string{"PEXPIREAT", k, "4102444800123"}, []string{"EXPIRE", k, "100000"}, []string{"PEXPIRE", k, "123456789"})...))
	for n := rapid.IntRange(1, 3).Draw(t, "sn"); n > 0; n-- {
		switch ty {
		case 0:
			out = append(out, kit.A(pick(t, "sop", []string{"LMOVE", k, k, "LEFT", "RIGHT"}, []string{"LMOVE", k, k, "RIGHT", "LEFT"}, []string{"LMOVE", k, k, "LEFT", "LEFT"}, []string{"LMOVE", k, k, "RIGHT", "RIGHT"},
				[]string{"RPOPLPUSH", k, k}, []string{"LSET", k, "0", "other"}, []string{"LINSERT", k, "BEFORE", "only", "x"}, []string{"LTRIM", k, "0", "0"}, []string{"LREM", k, "0", "nosuch"}, []string{"SORT", k, "ALPHA", "STORE", k})...))
		case 1:
			out = append(out, kit.A(pick(t, "sop", []string{"SMOVE", k, k, "only"}, []string{"SADD", k, "only"}, []string{"SREM", k, "nosuch"}, []string{"SUNIONSTORE", k, k}, []string{"SINTERSTORE", k, k, k}, []string{"SMOVE", k, "kz2", "nosuch"})...))
		default:
			out = append(out, kit.A(pick(t, "sop", []string{"HSET", k, "only", "2"}, []string{"HINCRBY", k, "only", "1"}, []string{"HSETNX", k, "only", "3"}, []string{"HDEL", k, "nosuch"}, []string{"HINCRBYFLOAT", k, "only", "0.5"})...))
		}
		out = append(out, kit.A("PEXPIRETIME", k))
	}
	return out
}

// c07Same: a key with a deadline is overwritten by a replacing command with exactly the value it already
// holds. "Nothing changed" is not a reason to keep the deadline: the replacing commands clear it (or carry
// the source's), whatever the bytes are.
func c07Same(t *rapid.T) []kit.Argv {
	dl := kit.A(pick(t, "dl", []string{"PEXPIREAT", "K", "4102444800123"}, []string{"EXPIRE", "K", "100000"})...)
	withKey := func(a kit.Argv, k string) kit.Argv {
		out := append(kit.Argv(nil), a...)
		for i := range out {
			if out[i] == "K" {
				out[i] = kit.S(k)
			}
		}
		return out
	}
	switch rapid.IntRange(0, 2).Draw(t, "samety") {
	case 0:
		k := "ks"
		out := []kit.Argv{kit.A("SET", k, "10"), withKey(dl, k)}
		out = append(out, kit.A(pick(t, "same", []string{"SET", k, "10"}, []string{"GETSET", k, "10"}, []string{"MSET", k, "10"}, []string{"BITOP", "AND", k, k}, []string{"BITOP", "OR", k, k, k},
			[]string{"BITOP", "XOR", k, k, "kmiss"}, []string{"BITOP", "OR", k, k, "kmiss"}, []string{"SET", k, "10", "KEEPTTL"}, []string{"APPEND", k, ""}, []string{"SETRANGE", k, "0", "10"}, []string{"SETNX", k, "10"})...))
		return append(out, kit.A("PEXPIRETIME", k))
	case 1:
		// the destination of BITOP already holds what the operation computes
		out := []kit.Argv{kit.A("SET", "ks", "ab"), kit.A("SET", "ks2", "ab"), kit.A(pick(t, "op", "BITOP"), pick(t, "bop", "AND", "OR"), "kd", "ks", "ks2"), withKey(dl, "kd")}
		out = append(out, kit.A("BITOP", pick(t, "bop2", "AND", "OR", "XOR", "NOT"), "kd", "ks"), kit.A("PEXPIRETIME", "kd"))
		if rapid.Bool().Draw(t, "again") {
			out = append(out, withKey(dl, "kd"), kit.A("BITOP", "OR", "kd", "kd", "ks2"), kit.A("PEXPIRETIME", "kd"))
		}
		return out
	default:
		k := "kz"
		out := []kit.Argv{kit.A("DEL", k), kit.A("SADD", k, "1", "2"), withKey(dl, k)}
		out = append(out, kit.A(pick(t, "sames", []string{"SUNIONSTORE", k, k}, []string{"SINTERSTORE", k, k, k}, []string{"SDIFFSTORE", k, k, "kmiss"}, []string{"SUNIONSTORE", k, k, "kmiss"}, []string{"SADD", k, "1"}, []string{"SMOVE", k, k, "1"})...))
		return append(out, kit.A("PEXPIRETIME", k))
	}
}

func c07BGen(t *rapid.T) SeqCase {
	var steps []kit.Argv
	for _, s := range setupTyped()[:4] {
		steps = append(steps, kit.A(s...))
	}
	n := rapid.IntRange(6, 40).Draw(t, "steps")
	for i := 0; i < n; i++ {
		if rapid.IntRange(0, 11).Draw(t, "same") == 0 {
			steps = append(steps, c07Same(t)...)
			continue
		}
		if rapid.IntRange(0, 11).Draw(t, "single") == 0 {
			steps = append(steps, c07Single(t)...)
			continue
		}
		steps = append(steps, c07BStep(t))
	}
	return SeqCase{Steps: steps}
}

func c07BObserve(argv []string, before *model.DB, exp model.Exp, st *kit.Stats, flags map[string]int) {
	name := upper(argv[0])
	st.Class("cmd:" + name)
	switch name {
	case "EXPIRE", "PEXPIRE", "EXPIREAT", "PEXPIREAT":
		opt := "none"
		if len(argv) == 4 {
			opt = upper(argv[3])
		}
		had := "no-ttl"
		if o := before.Keys[argv[1]]; o == nil {
			had = "missing"
		} else if o.HasTTL {
			had = "ttl"
		}
		st.Class("expire:" + opt + ":" + had)
		flags["dl:"+argv[1]+":"+name+opt]++
	case "PERSIST", "GETEX":
		flags["dl:"+argv[1]+":"+name]++
	case "SET":
		flags["dl:"+argv[1]+":SET"+strings.Join(argv[3:], "")]++
	}
}

func c07BRun(c SeqCase, st *kit.Stats) error {
	flags := map[string]int{}
	err := runSeq(c, st, seqHooks{observe: c07BObserve}, flags)
	if err == nil {
		perKey := map[string]int{}
		for f := range flags {
			if strings.HasPrefix(f, "dl:") {
				perKey[strings.SplitN(f, ":", 3)[1]]++
			}
		}
		for _, n := range perKey {
			if n >= 2 {
				st.NonTrivial(c.Canon(), c.Sample())
				break
			}
		}
	}
	return err
}

func TestC07B(t *testing.T) {
	kit.Check(t, kit.Prop[SeqCase]{ID: "C07B", Gen: c07BGen, Run: c07BRun})
}

// ---- C ------------------------------------------------------------------------------------------------------

type C07CCase struct {
	Px     []int    `json:"px"`    // per key: lifetime in ms
	Types  []int    `json:"types"` // per key: 0 string, 1 list, 2 hash, 3 set
	Reads  []string `json:"reads"` // read commands used by the poller, round robin
	StepMs int      `json:"step_ms"`
}

func c07CGen(t *rapid.T) C07CCase {
	var c C07CCase
	n := rapid.IntRange(2, 12).Draw(t, "keys")
	for i := 0; i < n; i++ {
		c.Px = append(c.Px, rapid.IntRange(30, 120).Draw(t, "px"))
		c.Types = append(c.Types, rapid.IntRange(0, 3).Draw(t, "ty"))
	}
	nr := rapid.IntRange(1, 4).Draw(t, "nreads")
	for i := 0; i < nr; i++ {
		c.Reads = append(c.Reads, pick(t, "read", "EXISTS", "TYPE", "VALUE", "KEYS", "SCAN", "DBSIZE", "PTTL", "SETNX", "RENAMENX", "LEN"))
	}
	c.StepMs = rapid.IntRange(1, 7).Draw(t, "step")
	return c
}

func c07CRun(c C07CCase, st *kit.Stats) error {
	emu := kit.StartEmu("")
	defer emu.Stop()
	conn := emu.Dial()
	n := len(c.Px)
	lo := make([]time.Time, n) // key certainly alive before lo
	hi := make([]time.Time, n) // key certainly gone after hi
	name := func(i int) string { return "e" + strconv.Itoa(i) }
	for i := 0; i < n; i++ {
		var mk []string
		switch c.Types[i] {
		case 0:
			mk = []string{"SET", name(i), "v"}
		case 1:
			mk = []string{"RPUSH", name(i), "v"}
		case 2:
			mk = []string{"HSET", name(i), "f", "v"}
		default:
			mk = []string{"SADD", name(i), "v"}
		}
		if v, err := conn.Do(mk...); err != nil || v.IsErr() {
			return fmt.Errorf("create: %v %v", v, err)
		}
		t0 := time.Now()
		v, err := conn.Do("PEXPIRE", name(i), strconv.Itoa(c.Px[i]))
		t1 := time.Now()
		if err != nil || !kit.Equal(v, kit.Int(1)) {
			return fmt.Errorf("PEXPIRE %s %d replied %v %v", name(i), c.Px[i], v, err)
		}
		lo[i] = t0.Add(time.Duration(c.Px[i])*time.Millisecond - 2*time.Millisecond)
		hi[i] = t1.Add(time.Duration(c.Px[i])*time.Millisecond + 2*time.Millisecond)
	}
	// a transaction queued while the keys are alive and executed after they expired must see them gone:
	// a command looks at the clock when it runs, not when it was received
	txc := emu.Dial()
	txc.Do("MULTI")
	for i := 0; i < n; i++ {
		txc.Do("EXISTS", name(i))
		txc.Do("TYPE", name(i))
	}
	txc.Do("DBSIZE")
	end := time.Now()
	for i := range hi {
		if hi[i].After(end) {
			end = hi[i]
		}
	}
	end = end.Add(15 * time.Millisecond)
	typeName := []string{"string", "list", "hash", "set"}
	decided, crossings := 0, 0
	seenAlive := make([]bool, n)
	for r := 0; time.Now().Before(end); r++ {
		i := r % n
		read := c.Reads[r%len(c.Reads)]
		k := name(i)
		var argv []string
		switch read {
		case "EXISTS":
			argv = []string{"EXISTS", k}
		case "TYPE":
			argv = []string{"TYPE", k}
		case "VALUE":
			argv = [][]string{{"GET", k}, {"LRANGE", k, "0", "-1"}, {"HGET", k, "f"}, {"SISMEMBER", k, "v"}}[c.Types[i]]
		case "LEN":
			argv = [][]string{{"STRLEN", k}, {"LLEN", k}, {"HLEN", k}, {"SCARD", k}}[c.Types[i]]
		case "KEYS":
			argv = []string{"KEYS", k}
		case "SCAN":
			argv = []string{"SCAN", "0", "MATCH", k, "COUNT", "1000"}
		case "DBSIZE":
			argv = []string{"DBSIZE"}
		case "PTTL":
			argv = []string{"PTTL", k}
		case "SETNX":
			argv = []string{"SETNX", k, "again"}
		case "RENAMENX":
			argv = []string{"RENAMENX", "helper", k}
		}
		// SETNX / RENAMENX would change the state: only use them once the key is certainly gone
		if (read == "SETNX" || read == "RENAMENX") && !time.Now().After(hi[i]) {
			argv = []string{"EXISTS", k}
			read = "EXISTS"
		}
		if read == "RENAMENX" {
			conn.Do("SET", "helper", "h")
		}
		t0 := time.Now()
		v, err := conn.Do(argv...)
		t1 := time.Now()
		if err != nil {
			return fmt.Errorf("%v: %v", argv, err)
		}
		alive, known := false, true
		switch read {
		case "EXISTS":
			alive = kit.Equal(v, kit.Int(1))
		case "TYPE":
			alive = v.S == typeName[c.Types[i]]
			if !alive && v.S != "none" {
				return fmt.Errorf("TYPE %s replied %s", k, v)
			}
		case "VALUE":
			switch c.Types[i] {
			case 0, 2:
				alive = v.K == kit.KBulk && v.S == "v"
			case 1:
				alive = v.K == kit.KArr && len(v.A) == 1
			default:
				alive = kit.Equal(v, kit.Int(1))
			}
		case "LEN":
			alive = v.K == kit.KInt && v.I >= 1
		case "KEYS":
			alive = v.K == kit.KArr && len(v.A) == 1
		case "SCAN":
			alive = v.K == kit.KArr && len(v.A) == 2 && len(v.A[1].A) == 1
		case "PTTL":
			alive = v.K == kit.KInt && v.I >= 0
			if v.K == kit.KInt && v.I == -1 {
				return fmt.Errorf("PTTL %s replied -1 although a deadline was set", k)
			}
		case "DBSIZE":
			// number of keys certainly alive <= dbsize <= number not certainly gone
			min, max := int64(0), int64(0)
			for j := 0; j < n; j++ {
				if t1.Before(lo[j]) {
					min++
				}
				if !t0.After(hi[j]) {
					max++
				}
			}
			if v.K != kit.KInt || v.I < min || v.I > max {
				return fmt.Errorf("DBSIZE=%s but between %d and %d keys can be alive at this moment", v, min, max)
			}
			decided++
			known = false
		case "SETNX", "RENAMENX":
			// the key is certainly expired: nothing may be blocked by the expired data
			if !kit.Equal(v, kit.Int(1)) {
				return fmt.Errorf("%v after the deadline replied %s: blocked by expired data", argv, v)
			}
			decided++
			known = false
			// the key now exists without deadline: take it out of the game
			hi[i] = time.Now().Add(time.Hour)
			lo[i] = hi[i]
			conn.Do("DEL", k)
			lo[i], hi[i] = time.Time{}, time.Time{}
		}
		if known {
			if t1.Before(lo[i]) {
				decided++
				seenAlive[i] = true
				if !alive {
					return fmt.Errorf("%v replied %s at %v before the deadline (earliest %v): key vanished early", argv, v, t1.Format("15:04:05.000"), lo[i].Format("15:04:05.000"))
				}
			} else if t0.After(hi[i]) && !hi[i].IsZero() {
				decided++
				if seenAlive[i] {
					crossings++
					seenAlive[i] = false
				}
				if alive {
					return fmt.Errorf("%v replied %s at %v after the deadline (latest %v): expired key still visible", argv, v, t0.Format("15:04:05.000"), hi[i].Format("15:04:05.000"))
				}
			}
		}
		time.Sleep(time.Duration(c.StepMs) * time.Millisecond / 4)
	}
	if time.Now().After(end) {
		v, err := txc.Do("EXEC")
		if err != nil || v.K != kit.KArr || len(v.A) != 2*n+1 {
			return fmt.Errorf("EXEC of the transaction queued before the deadlines: %v %v", v, err)
		}
		for i := 0; i < n; i++ {
			if lo[i].IsZero() {
				continue // the key was re-created by a SETNX/RENAMENX probe and deleted again
			}
			if !kit.Equal(v.A[2*i], kit.Int(0)) || v.A[2*i+1].S != "none" {
				return fmt.Errorf("a transaction queued before the deadline of %s and executed %v after it still sees the key: EXISTS -> %s, TYPE -> %s", name(i), time.Since(hi[i]).Round(time.Millisecond), v.A[2*i], v.A[2*i+1])
			}
		}
		if !kit.Equal(v.A[2*n], kit.Int(0)) {
			h, _ := conn.Do("EXISTS", "helper")
			if !(kit.Equal(h, kit.Int(1)) && kit.Equal(v.A[2*n], kit.Int(1))) {
				return fmt.Errorf("DBSIZE inside a transaction executed after every deadline is %s", v.A[2*n])
			}
		}
		st.Class("transaction-queued-before-deadline-executed-after")
	}
	st.ClassN("decided-observations", decided)
	st.ClassN("deadline-crossings-observed", crossings)
	for _, r := range c.Reads {
		st.Class("read:" + r)
	}
	if crossings >= 1 {
		st.NonTrivial(fmt.Sprintf("%v %v %v %d", c.Px, c.Types, c.Reads, c.StepMs), c)
	}
	return nil
}

func TestC07C(t *testing.T) {
	kit.Check(t, kit.Prop[C07CCase]{ID: "C07C", Gen: c07CGen, Run: c07CRun})
}
