package props

import (
	"fmt"
	"sort"
	"strconv"
	"strings"
	"testing"

	"pgregory.net/rapid"

	"verifharness/kit"
	"verifharness/model"
)

// C06 — keyspace discipline: one type per key, failed commands inert, no empty keys; keyspace commands.

func c06AnyKey(t *rapid.T) string {
	switch rapid.IntRange(0, 9).Draw(t, "kk") {
	case 0:
		return "kmiss"
	case 1, 2:
		return pick(t, "abc", "a", "b", "c")
	}
	return typedKey(pick(t, "ty", allTypes...), rapid.IntRange(0, 1).Draw(t, "var"))
}

// matrix probe: any template with every slot filled by a key of a drawn type.
func c06Matrix(t *rapid.T) kit.Argv {
	tm := cmdTable[rapid.IntRange(0, len(cmdTable)-1).Draw(t, "tmpl")]
	keys := make([]string, tm.slots)
	for i := range keys {
		keys[i] = c06AnyKey(t)
	}
	return kit.A(tm.mk(t, keys)...)
}

// emptying scenario: build a tiny aggregate on a/b/c and remove its last element in a drawn way.
func c06Empty(t *rapid.T) []kit.Argv {
	k := pick(t, "k", "a", "b", "c")
	other := pick(t, "o", "a", "b", "c", "kl", "kz")
	out := []kit.Argv{kit.A("DEL", k)}
	switch rapid.IntRange(0, 19).Draw(t, "how") {
	case 14: // a STORE whose result is empty although the source is not: an empty LIMIT window
		out = append(out, kit.A("RPUSH", k, "x"), kit.A("SORT", pick(t, "srtsrc", "kl", "kz", "kl1"), "ALPHA", "LIMIT", pick(t, "lo", "5", "100", "0", "1"), pick(t, "cnt", "0", "3", "0"), "STORE", k))
	case 15:
		out = append(out, kit.A("SET", k, "old"), kit.A("PEXPIREAT", k, "4102444800000"), kit.A("SORT", "kl", "LIMIT", "9", "9", "ALPHA", "STORE", k), kit.A("PEXPIRETIME", k))
	case 16: // set algebra with an empty result over non-empty operands
		out = append(out, kit.A("SADD", k, "only-here"), kit.A("SINTERSTORE", k, k, "kz"))
	case 17:
		out = append(out, kit.A("SADD", k, "1", "2"), kit.A("SDIFFSTORE", k, k, "kz", k))
	case 18: // BITOP whose result is the empty string
		out = append(out, kit.A("SET", k, "x"), kit.A("BITOP", "AND", k, "kmiss", "kmiss2"))
	case 19:
		out = append(out, kit.A("RPUSH", k, "x", "y", "z"), kit.A("LPOP", k, "3"))
	case 0:
		out = append(out, kit.A("RPUSH", k, "x"), kit.A("LPOP", k))
	case 1:
		out = append(out, kit.A("RPUSH", k, "x", "y"), kit.A("RPOP", k, "5"))
	case 2:
		out = append(out, kit.A("RPUSH", k, "x", "x"), kit.A("LREM", k, "0", "x"))
	case 3:
		out = append(out, kit.A("RPUSH", k, "x", "y"), kit.A("LTRIM", k, "5", "9"))
	case 4:
		out = append(out, kit.A("RPUSH", k, "x"), kit.A("LMOVE", k, other, "LEFT", "RIGHT"))
	case 5:
		out = append(out, kit.A("RPUSH", k, "x"), kit.A("RPOPLPUSH", k, other))
	case 6:
		out = append(out, kit.A("RPUSH", k, "x", "y"), kit.A("LMPOP", "2", "kmiss", k, "RIGHT", "COUNT", "7"))
	case 7:
		out = append(out, kit.A("HSET", k, "f", "1", "g", "2"), kit.A("HDEL", k, "g", "zz", "f"))
	case 8:
		out = append(out, kit.A("SADD", k, "m", "n"), kit.A("SREM", k, "n", "m", "q"))
	case 9:
		out = append(out, kit.A("SADD", k, "m"), kit.A("SMOVE", k, pick(t, "d", "kz", "a", "b", "c", "fresh"), "m"))
	case 10:
		out = append(out, kit.A("SADD", k, "m"), kit.A(pick(t, "st", "SINTERSTORE", "SDIFFSTORE"), k, k, "kz1"))
	case 11:
		out = append(out, kit.A("SADD", k, "m"), kit.A("SUNIONSTORE", k, "kmiss", "kmiss2"))
	case 12:
		out = append(out, kit.A("RPUSH", k, "x"), kit.A("SORT", "kmiss", "STORE", k))
	case 13:
		out = append(out, kit.A("RPUSH", k, "x", "y"), kit.A("LTRIM", k, "1", "0"))
	}
	return out
}

var c06Patterns = []string{"*", "k*", "?", "k?", "k[lh]", "k[^lh]*", "k[a-z]1", "a", "[abc]", "\\a", "*1", "k*1", "??", "k\\l", "nomatch*", "k[h-l]", "k[l-h]"}

func c06Keyspace(t *rapid.T) kit.Argv {
	k1, k2 := c06AnyKey(t), c06AnyKey(t)
	if rapid.IntRange(0, 4).Draw(t, "samekey") == 0 {
		k2 = k1 // source and destination are the same name
	}
	switch rapid.IntRange(0, 13).Draw(t, "ks") {
	case 0:
		return kit.A("KEYS", pick(t, "pat", c06Patterns...))
	case 1:
		return kit.A("RANDOMKEY")
	case 2:
		return kit.A("DBSIZE")
	case 3:
		return kit.A(pick(t, "r", "RENAME", "RENAMENX"), k1, k2)
	case 4:
		a := []string{"COPY", k1, k2}
		if rapid.Bool().Draw(t, "rep") {
			a = append(a, "REPLACE")
		}
		return kit.A(a...)
	case 5:
		return kit.A(pick(t, "d", "DEL", "UNLINK"), k1, k2, k1)
	case 6:
		return kit.A(pick(t, "e", "EXISTS", "TOUCH"), k1, k2, k1)
	case 7:
		return kit.A("TYPE", k1)
	case 8:
		return kit.A("PEXPIREAT", k1, pick(t, "abs", "4102444800000", "4102444800555"))
	case 9:
		// weight / projection keys for SORT BY and GET
		return kit.A("MSET", "w_1", "30", "w_2", "20", "w_3", "10", "o_1", "one", "o_2", "two", "w_x", "5", "w_m", "7")
	default:
		src := pick(t, "src", "kl", "kz", "kl1", "kz1", "a", "b", "kmiss", "ks", "kh")
		a := []string{"SORT", src}
		var opts [][]string
		if rapid.IntRange(0, 2).Draw(t, "by") == 0 {
			opts = append(opts, []string{"BY", pick(t, "byp", "w_*", "nosort", "w_*", "zz*")})
		}
		if rapid.IntRange(0, 2).Draw(t, "lim") == 0 {
			opts = append(opts, []string{"LIMIT", pick(t, "off", "0", "1", "2", "-1", "5"), pick(t, "cnt", "0", "1", "2", "-1", "10")})
		}
		for i := rapid.IntRange(0, 2).Draw(t, "gets"); i > 0; i-- {
			opts = append(opts, []string{"GET", pick(t, "gp", "#", "o_*", "w_*", "nostar")})
		}
		if rapid.Bool().Draw(t, "alpha") {
			opts = append(opts, []string{"ALPHA"})
		}
		if rapid.IntRange(0, 2).Draw(t, "dir") > 0 {
			opts = append(opts, []string{pick(t, "d", "ASC", "DESC")})
		}
		if rapid.IntRange(0, 3).Draw(t, "store") == 0 {
			opts = append(opts, []string{"STORE", pick(t, "dst", "a", "b", "kl", "ks", src)})
		}
		for _, i := range rapid.Permutation(idx(len(opts))).Draw(t, "order") {
			a = append(a, opts[i]...)
		}
		return kit.A(a...)
	}
}

// failing commands that are not type errors.
func c06Failing(t *rapid.T) kit.Argv {
	return kit.A(pick(t, "fail",
		[]string{"INCR", "ks1"}, []string{"INCRBY", "ks", "9223372036854775807"}, []string{"DECRBY", "ks", "-9223372036854775808"},
		[]string{"LSET", "kl", "7", "q"}, []string{"LSET", "kmiss", "0", "q"}, []string{"LPOP", "kl", "-1"},
		[]string{"HINCRBY", "kh", "g", "1"}, []string{"HINCRBY", "kh1", "f", "9223372036854775807"}, []string{"HINCRBYFLOAT", "kh", "g", "1.5"},
		[]string{"SETRANGE", "ks", "-1", "q"}, []string{"SETRANGE", "ks", "536870912", "q"}, []string{"SET", "ks", "v", "EX", "0"},
		[]string{"SET", "ks", "v", "PX", "-5"}, []string{"SETEX", "ks", "0", "v"}, []string{"GETEX", "ks", "EX", "-1"},
		[]string{"SET", "ks"}, []string{"HSET", "kh", "f"}, []string{"LPOS", "kl", "1", "RANK", "0"}, []string{"LPOS", "kl", "1", "COUNT", "-1"},
		[]string{"LMPOP", "0", "kl", "LEFT"}, []string{"LMPOP", "1", "kl", "LEFT", "COUNT", "0"}, []string{"SINTERCARD", "1", "kz", "LIMIT", "-1"},
		[]string{"RENAME", "kmiss", "ks"}, []string{"RENAMENX", "kmiss", "zz"}, []string{"SORT", "kl1"}, []string{"SORT", "kz", "LIMIT", "0"},
		[]string{"NOSUCHCOMMAND", "ks"}, []string{"EXPIRE", "ks", "abc"}, []string{"EXPIRE", "ks", "100", "ZZ"}, []string{"INCRBYFLOAT", "ks1", "1"},
		[]string{"MSET", "ks", "1", "kl"}, []string{"LINSERT", "kl", "MIDDLE", "1", "q"}, []string{"LMOVE", "kl", "kl1", "UP", "LEFT"},
		[]string{"GETRANGE", "ks", "a", "1"}, []string{"LINDEX", "kl", "x"}, []string{"HRANDFIELD", "kh", "x"},
		// commands that fail (or do nothing) on a key that does not exist: they must not leave a key behind
		[]string{"HINCRBYFLOAT", "kmiss", "f", "inf"}, []string{"HINCRBYFLOAT", "kmiss", "f", "-inf"}, []string{"HINCRBYFLOAT", "kmiss", "f", "nan"}, []string{"HINCRBYFLOAT", "kmiss", "f", "abc"},
		[]string{"HINCRBY", "kmiss", "f", "abc"}, []string{"HINCRBY", "kmiss", "f", "9223372036854775808"}, []string{"INCRBYFLOAT", "kmiss", "inf"}, []string{"INCRBYFLOAT", "kmiss", "nan"},
		[]string{"INCRBY", "kmiss", "abc"}, []string{"SETRANGE", "kmiss", "-1", "q"}, []string{"SETRANGE", "kmiss", "536870912", "q"}, []string{"SETRANGE", "kmiss", "5", ""},
		[]string{"SETBIT", "kmiss", "1", "2"}, []string{"SETBIT", "kmiss", "-1", "1"}, []string{"SETBIT", "kmiss", "4294967296", "1"}, []string{"LINSERT", "kmiss", "BEFORE", "p", "q"},
		[]string{"LPUSHX", "kmiss", "q"}, []string{"RPUSHX", "kmiss", "q"}, []string{"LMOVE", "kmiss", "kmiss2", "LEFT", "RIGHT"}, []string{"RPOPLPUSH", "kmiss", "kmiss2"}, []string{"SMOVE", "kmiss", "kmiss2", "m"},
		[]string{"SMOVE", "kz", "kmiss2", "not-a-member"}, []string{"SETEX", "kmiss", "0", "v"}, []string{"PSETEX", "kmiss", "-1", "v"}, []string{"SET", "kmiss", "v", "EX", "0"}, []string{"SET", "kmiss", "v", "XX"},
		[]string{"BITFIELD", "kmiss", "SET", "u8", "0"}, []string{"BITFIELD", "kmiss", "INCRBY", "u8", "0", "abc"}, []string{"BITFIELD", "kmiss", "SET", "u65", "0", "1"}, []string{"BITFIELD", "kmiss", "GET", "u8", "0"},
		[]string{"BITFIELD", "kmiss", "OVERFLOW", "FAIL", "INCRBY", "u2", "0", "5"}, []string{"HSETNX", "kmiss", "f"}, []string{"HDEL", "kmiss", "f"}, []string{"SREM", "kmiss", "m"}, []string{"LREM", "kmiss", "0", "x"},
		[]string{"LTRIM", "kmiss", "0", "1"}, []string{"GETEX", "kmiss", "EX", "100"}, []string{"EXPIRE", "kmiss", "100"}, []string{"PERSIST", "kmiss"}, []string{"COPY", "kmiss", "kmiss2"}, []string{"SORT", "kmiss", "STORE", "kmiss2"},
		[]string{"SINTERSTORE", "kmiss2", "kmiss", "kz"}, []string{"SDIFFSTORE", "kmiss2", "kmiss"}, []string{"BITOP", "AND", "kmiss2", "kmiss"}, []string{"BITOP", "NOT", "kmiss2", "kmiss"}, []string{"APPEND", "kmiss", ""},
		[]string{"LSET", "kmiss", "0", "q"}, []string{"LPOP", "kmiss", "0"},
		[]string{"MSETNX", "kmiss", "1", "ks", "2"}, []string{"HSET", "kmiss", "f", "v", "g"}, []string{"SADD", "kmiss"}, []string{"LPUSH", "kmiss"}, []string{"HMSET", "kmiss", "f"},
	)...)
}

// c06Sparse: the keyspace itself in a sparse, shrink-prone table: a few keys from a wide name space,
// create/delete cycles, then keyspace commands (the after-step invariants compare KEYS, DBSIZE and SCAN).
func c06Sparse(t *rapid.T) []kit.Argv {
	name := func() string { return "w" + strconv.Itoa(rapid.IntRange(0, 199).Draw(t, "w")) }
	var out []kit.Argv
	var names []string
	if rapid.IntRange(0, 2).Draw(t, "tail") == 0 {
		x, y := tailPair(t)
		names = append(names, x, y)
		out = append(out, kit.A("SADD", x, "m"), kit.A("SET", y, "v"))
	}
	for i := rapid.IntRange(2, 7).Draw(t, "nk"); i > 0; i-- {
		k := name()
		names = append(names, k)
		out = append(out, kit.A(pick(t, "mk", []string{"SET", k, "v"}, []string{"RPUSH", k, "e"}, []string{"SADD", k, "m"}, []string{"HSET", k, "f", "v"})...))
	}
	for phase := rapid.IntRange(1, 4).Draw(t, "phases"); phase > 0; phase-- {
		rm := pick(t, "rm", "DEL", "DEL", "GETDEL")
		for i := churnCount(t); i > 0; i-- {
			out = append(out, kit.A("SET", "churn", "1"), kit.A(rm, "churn"))
		}
		out = append(out, c06SparseOps(t, names, name)...)
	}
	return out
}

func c06SparseOps(t *rapid.T, names []string, name func() string) []kit.Argv {
	var out []kit.Argv
	for i := rapid.IntRange(1, 3).Draw(t, "after"); i > 0; i-- {
		out = append(out, kit.A(pick(t, "sparseop", []string{"KEYS", "w*"}, []string{"DBSIZE"}, []string{"RANDOMKEY"}, []string{"DEL", pick(t, "dk", names...)}, []string{"RENAME", pick(t, "rk", names...), name()},
			[]string{"EXISTS", names[0], names[len(names)-1]}, []string{"COPY", names[0], name()}, []string{"TYPE", names[0]})...))
	}
	return out
}

// c06Alias: after a command that copies or moves a whole value (COPY, RENAME, STORE forms), both names
// are modified in place alternately: shared storage between the two keys shows as cross-talk in the dump.
func c06Alias(t *rapid.T) []kit.Argv {
	ty := pick(t, "aty", allTypes...)
	src := typedKey(ty, rapid.IntRange(0, 1).Draw(t, "avar"))
	dst := pick(t, "adst", "a", "b", "c")
	out := []kit.Argv{kit.A("COPY", src, dst, "REPLACE")}
	if rapid.IntRange(0, 3).Draw(t, "viaRename") == 0 {
		out = append(out, kit.A("RENAME", dst, "moved"), kit.A("COPY", "moved", dst))
	}
	mut := func(k string) kit.Argv {
		switch ty {
		case model.TString:
			return kit.A(pick(t, "ms", []string{"APPEND", k, pick(t, "ap", "X", "YY", "ZZZ")}, []string{"SETRANGE", k, "1", "q"}, []string{"SETBIT", k, "3", "1"}, []string{"APPEND", k, "W"}, []string{"BITFIELD", k, "SET", "u8", "0", "65"})...)
		case model.TList:
			return kit.A(pick(t, "ml", []string{"RPUSH", k, "n1"}, []string{"LSET", k, "0", "chg"}, []string{"LPOP", k}, []string{"LINSERT", k, "AFTER", "1", "ins"}, []string{"LPUSH", k, "h"})...)
		case model.THash:
			return kit.A(pick(t, "mh", []string{"HSET", k, "f", "chg"}, []string{"HSET", k, "newf", "1"}, []string{"HDEL", k, "g"}, []string{"HINCRBY", k, "cnt", "2"})...)
		}
		return kit.A(pick(t, "mz", []string{"SADD", k, "added"}, []string{"SREM", k, "m"}, []string{"SADD", k, "x1", "x2"}, []string{"SMOVE", k, "kz1", "1"})...)
	}
	for i := rapid.IntRange(2, 5).Draw(t, "muts"); i > 0; i-- {
		if i%2 == 0 {
			out = append(out, mut(dst))
		} else {
			out = append(out, mut(src))
		}
	}
	return out
}

// c06TailCollection: a set or hash whose only members sit in the last two buckets of its 32-bucket table, add/remove
// cycles that take the table to its shrink check, then the members are removed one by one: when the last one
// goes the key must be gone.
func c06TailCollection(t *rapid.T) []kit.Argv {
	x, y := tailPair(t)
	k := pick(t, "tk", "a", "b", "c")
	set := rapid.Bool().Draw(t, "tset")
	out := []kit.Argv{kit.A("DEL", k)}
	if set {
		out = append(out, kit.A("SADD", k, x, y))
	} else {
		out = append(out, kit.A("HSET", k, x, "1", y, "2"))
	}
	for i := churnCount(t) + 17; i > 0; i-- {
		if set {
			out = append(out, kit.A("SADD", k, "churn"), kit.A("SREM", k, "churn"))
		} else {
			out = append(out, kit.A("HSET", k, "churn", "1"), kit.A("HDEL", k, "churn"))
		}
	}
	if set {
		out = append(out, kit.A("SMEMBERS", k), kit.A("SREM", k, x), kit.A("SCARD", k), kit.A("SREM", k, y))
	} else {
		out = append(out, kit.A("HGETALL", k), kit.A("HDEL", k, y), kit.A("HLEN", k), kit.A("HDEL", k, x))
	}
	return append(out, kit.A("EXISTS", k), kit.A("TYPE", k), kit.A("DBSIZE"))
}

// c06GoneDest: the destination of a two-key command was removed just before - by DEL, or in one of the ways
// that leave it in the table (UNLINK, a deadline in the past). Every command must treat it as absent.
func c06GoneDest(t *rapid.T) []kit.Argv {
	dst := c06AnyKey(t)
	src := c06AnyKey(t)
	return []kit.Argv{goneStep(t, dst), kit.A(pick(t, "into",
		[]string{"RENAMENX", src, dst}, []string{"COPY", src, dst}, []string{"RENAME", src, dst}, []string{"SETNX", dst, "v"}, []string{"MSETNX", dst, "v", "kfresh", "w"},
		[]string{"LMOVE", "kl", dst, "LEFT", "RIGHT"}, []string{"SMOVE", "kz", dst, "1"}, []string{"SINTERSTORE", dst, "kz", "kz1"}, []string{"SORT", "kl", "ALPHA", "STORE", dst},
		[]string{"BITOP", "OR", dst, "ks"}, []string{"SET", dst, "v", "NX"}, []string{"SET", dst, "v", "XX"}, []string{"HSETNX", dst, "f", "v"}, []string{"LPUSHX", dst, "v"}, []string{"APPEND", dst, "tail"},
		[]string{"INCR", dst}, []string{"EXPIRE", dst, "100"}, []string{"PERSIST", dst}, []string{"GETEX", dst, "EX", "100"},
	)...), kit.A("EXISTS", dst), kit.A("TYPE", dst)}
}

func c06Gen(t *rapid.T) SeqCase {
	var steps []kit.Argv
	for _, s := range setupTyped() {
		steps = append(steps, kit.A(s...))
	}
	n := rapid.IntRange(6, 30).Draw(t, "steps")
	for i := 0; i < n; i++ {
		switch weighted(t, "kind", []int{9, 4, 5, 3, 1, 2, 2, 1}) {
		case 7:
			steps = append(steps, c06TailCollection(t)...)
		case 6:
			steps = append(steps, c06GoneDest(t)...)
		case 5:
			steps = append(steps, c06Alias(t)...)
		case 4:
			steps = append(steps, c06Sparse(t)...)
		case 0:
			steps = append(steps, c06Matrix(t))
		case 1:
			steps = append(steps, c06Empty(t)...)
		case 2:
			steps = append(steps, c06Keyspace(t))
		default:
			steps = append(steps, c06Failing(t))
		}
	}
	return SeqCase{Steps: steps}
}

func aggLen(db *model.DB, k string) int {
	o := db.Keys[k]
	if o == nil {
		return -1
	}
	switch o.T {
	case model.TList:
		return len(o.List)
	case model.THash:
		return len(o.Hash)
	case model.TSet:
		return len(o.Set)
	}
	return -1
}

func c06Observe(argv []string, before *model.DB, exp model.Exp, st *kit.Stats, flags map[string]int) {
	name := upper(argv[0])
	st.Class("cmd:" + name)
	if exp.IsErr() && len(before.Keys) > 0 {
		flags["fail"]++
		cl := exp.Class
		if cl == "" {
			cl = "any"
		}
		st.Class("error:" + cl)
		if exp.Class == "WRONGTYPE" {
			// matrix cell: command x types of its key arguments
			var tys []string
			for _, a := range argv[1:] {
				if o := before.Keys[a]; o != nil && strings.HasPrefix(a, "k") {
					tys = append(tys, o.T.String())
				}
			}
			st.Class("wrongtype:" + name + ":" + strings.Join(tys, ","))
			flags["cell:"+name+":"+strings.Join(tys, ",")]++
		}
	}
	switch name {
	case "RENAME", "RENAMENX", "COPY":
		if !exp.IsErr() && len(argv) >= 3 {
			if o := before.Keys[argv[1]]; o != nil && o.T != model.TString && o.HasTTL {
				flags["carry"]++
				st.Class("rename-copy-nonstring-with-deadline")
			}
		}
	}
	// did an aggregate vanish?
	removers := map[string]bool{"LPOP": true, "RPOP": true, "LREM": true, "LTRIM": true, "LMOVE": true, "RPOPLPUSH": true, "LMPOP": true,
		"HDEL": true, "SREM": true, "SMOVE": true, "SINTERSTORE": true, "SDIFFSTORE": true, "SUNIONSTORE": true, "SORT": true}
	if !exp.IsErr() && removers[name] {
		for _, a := range argv[1:] {
			if aggLen(before, a) > 0 {
				flags["hadagg:"+a]++
			}
		}
	}
}

// c06After checks the invariants that do not need the model: no empty aggregate is listed, and a
// full SCAN iteration sees exactly the keys KEYS * sees.
func c06After(conn *kit.Conn, db *model.DB, flags map[string]int, st *kit.Stats) error {
	v, err := conn.Do("KEYS", "*")
	if err != nil {
		return err
	}
	keys, _ := v.Strings()
	for _, k := range keys {
		tv, _ := conn.Do("TYPE", k)
		var lv kit.Value
		switch tv.S {
		case "list":
			lv, _ = conn.Do("LLEN", k)
		case "hash":
			lv, _ = conn.Do("HLEN", k)
		case "set":
			lv, _ = conn.Do("SCARD", k)
		default:
			continue
		}
		if lv.K != kit.KInt || lv.I <= 0 {
			return fmt.Errorf("key %q of type %s is listed by KEYS * but its length is %s (empty aggregate)", k, tv.S, lv)
		}
	}
	// full SCAN
	seen := map[string]bool{}
	cursor := "0"
	for i := 0; i < 10000; i++ {
		r, err := conn.Do("SCAN", cursor, "COUNT", "7")
		if err != nil {
			return err
		}
		if r.K != kit.KArr || len(r.A) != 2 || !r.A[0].IsString() || r.A[1].K != kit.KArr {
			return fmt.Errorf("SCAN %s replied %s", cursor, r)
		}
		for _, e := range r.A[1].A {
			seen[e.S] = true
		}
		cursor = r.A[0].S
		if cursor == "0" {
			break
		}
	}
	if cursor != "0" {
		return fmt.Errorf("SCAN did not terminate")
	}
	var scanKeys []string
	for k := range seen {
		scanKeys = append(scanKeys, k)
	}
	sort.Strings(scanKeys)
	sort.Strings(keys)
	if strings.Join(scanKeys, "\x00") != strings.Join(keys, "\x00") {
		return fmt.Errorf("full SCAN iteration returned %q but KEYS * returned %q", scanKeys, keys)
	}
	// count emptied aggregates (classification)
	for f := range flags {
		if strings.HasPrefix(f, "hadagg:") {
			k := f[len("hadagg:"):]
			if db.Keys[k] == nil {
				flags["emptied"]++
				st.Class("aggregate-emptied-or-deleted")
			}
			delete(flags, f)
		}
	}
	return nil
}

func c06Run(c SeqCase, st *kit.Stats) error {
	flags := map[string]int{}
	err := runSeq(c, st, seqHooks{observe: c06Observe, after: c06After}, flags)
	if err == nil && ((flags["fail"] > 0 && flags["emptied"] > 0) || flags["carry"] > 0) {
		st.NonTrivial(c.Canon(), c.Sample())
	}
	return err
}

func TestC06(t *testing.T) {
	kit.Check(t, kit.Prop[SeqCase]{ID: "C06", Gen: c06Gen, Run: c06Run})
}
