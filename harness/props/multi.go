package props

import (
	"fmt"
	"strings"

	"verifharness/kit"
	"verifharness/model"
)

// MStep is one command sent on one of several connections (sequentially interleaved).
type MStep struct {
	Conn int      `json:"conn"`
	Argv kit.Argv `json:"argv"`
}

// MultiCase is a sequential interleaving of commands over several connections.
type MultiCase struct {
	Conns int     `json:"conns"`
	Steps []MStep `json:"steps"`
}

func (c MultiCase) Canon() string {
	var sb strings.Builder
	fmt.Fprintf(&sb, "%d|", c.Conns)
	for _, s := range c.Steps {
		fmt.Fprintf(&sb, "%d:", s.Conn)
		for _, a := range s.Argv {
			fmt.Fprintf(&sb, "%d:%s ", len(a), a)
		}
		sb.WriteByte('\n')
	}
	return sb.String()
}

func (c MultiCase) Sample() []string {
	out := make([]string, len(c.Steps))
	for i, s := range c.Steps {
		out[i] = fmt.Sprintf("c%d: %s", s.Conn, s.Argv)
	}
	return out
}

type multiHooks struct {
	// skip returns a known-finding id when the step would trigger a listed finding.
	skip func(step MStep, srv *model.Server, sess []*model.Session) string
	// observe is called after each compared step.
	observe func(step MStep, exp model.Exp, got kit.Value, srv *model.Server, sess []*model.Session, st *kit.Stats, flags map[string]int)
	// dumpAll: after every step compare the selected database of every connection that is not inside MULTI
	// (otherwise only the acting connection's).
	dumpAll bool
	noDump  bool
}

// runMulti executes the case on a fresh emulator and on the server model.
func runMulti(c MultiCase, st *kit.Stats, h multiHooks, flags map[string]int) error {
	emu := kit.StartEmu("")
	defer emu.Stop()
	srv := model.NewServer()
	conns := make([]*kit.Conn, c.Conns)
	slots := make([]*model.Session, c.Conns)
	var sess []*model.Session // sessions of the connections opened so far
	for i, step := range c.Steps {
		if step.Conn < 0 || step.Conn >= c.Conns {
			continue
		}
		argv := step.Argv.Strs()
		if conns[step.Conn] == nil {
			// a connection is opened when the program first uses it
			conns[step.Conn] = emu.Dial()
			slots[step.Conn] = model.NewSession(step.Conn)
			sess = append(sess, slots[step.Conn])
		}
		se := slots[step.Conn]
		if h.skip != nil {
			if id := h.skip(step, srv, sess); id != "" {
				st.Exclude(id)
				continue
			}
		}
		if upper(argv[0]) == "EXEC" && kit.KF("KF-C10-ABA") && srv.AbortOnlyByVanishedKeys(se) {
			// known finding: the step is left out (the connection stays inside MULTI on both sides)
			st.Exclude("KF-C10-ABA")
			continue
		}
		n := nowMs()
		if srv.WouldBeAny(sess, se, argv, model.Time{Lo: n, Hi: n}) {
			st.Class("dont-care-skipped")
			continue
		}
		if upper(argv[0]) == "HELLO" && len(argv) == 2 && (argv[1] == "2" || argv[1] == "3") {
			// the reply to HELLO already comes in the new protocol
			conns[step.Conn].Proto = int(argv[1][0] - '0')
		}
		t0 := nowMs()
		got, err := conns[step.Conn].Do(argv...)
		t1 := nowMs()
		if err != nil {
			return fmt.Errorf("step %d c%d %s: no well-formed reply: %v", i, step.Conn, step.Argv, err)
		}
		tm := model.Time{Lo: t0, Hi: t1}
		exp := srv.Exec(sess, se, argv, tm)
		for _, db := range srv.DBs {
			if db.Ambiguous {
				st.Class("ambiguous-time")
				return nil
			}
		}
		if err := exp.Match(got); err != nil {
			return fmt.Errorf("step %d c%d %s: %v", i, step.Conn, step.Argv, err)
		}
		if h.observe != nil {
			h.observe(step, exp, got, srv, sess, st, flags)
		}
		if h.noDump {
			continue
		}
		for ci, conn := range conns {
			if conn == nil || (!h.dumpAll && ci != step.Conn) {
				continue
			}
			if slots[ci].InMulti {
				continue
			}
			t0 = nowMs()
			d, err := dumpEmu(conn)
			t1 = nowMs()
			if err != nil {
				return fmt.Errorf("after step %d c%d %s: state dump through c%d failed: %v", i, step.Conn, step.Argv, ci, err)
			}
			if err := compareDump(d, srv.DBs[slots[ci].DB], model.Time{Lo: t0, Hi: t1}); err != nil {
				return fmt.Errorf("after step %d c%d %s (reply %s): database %d as seen by c%d: %v", i, step.Conn, step.Argv, got, slots[ci].DB, ci, err)
			}
		}
	}
	return nil
}
