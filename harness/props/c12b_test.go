package props

import (
	"fmt"
	"strconv"
	"testing"
	"time"

	"pgregory.net/rapid"

	"verifharness/kit"
)

// C12 part B — timeouts, timeout 0, and blocking commands inside MULTI (no hooks).

type C12BCase struct {
	Cmd       int  `json:"cmd"`        // 0 BLPOP 1 BRPOP 2 BLMOVE 3 BRPOPLPUSH 4 BLMPOP
	TimeoutMs int  `json:"timeout_ms"` // 0 = wait forever
	InMulti   bool `json:"in_multi"`
	Again     bool `json:"again"` // block a second time on the same connection afterwards
}

func c12BGen(t *rapid.T) C12BCase {
	c := C12BCase{Cmd: rapid.IntRange(0, 4).Draw(t, "cmd"), InMulti: rapid.IntRange(0, 3).Draw(t, "multi") == 0, Again: rapid.Bool().Draw(t, "again")}
	switch rapid.IntRange(0, 5).Draw(t, "tkind") {
	case 0:
		c.TimeoutMs = 0
	default:
		c.TimeoutMs = pick(t, "ms", 10, 15, 25, 33, 50, 75, 100, 120, 150, 250, 300)
	}
	return c
}

func c12BCmd(c C12BCase, timeout string) []string {
	switch c.Cmd {
	case 0:
		return []string{"BLPOP", "q1", "q2", timeout}
	case 1:
		return []string{"BRPOP", "q1", timeout}
	case 2:
		return []string{"BLMOVE", "q1", "out", "LEFT", "RIGHT", timeout}
	case 3:
		return []string{"BRPOPLPUSH", "q1", "out", timeout}
	}
	return []string{"BLMPOP", timeout, "2", "q1", "q2", "LEFT"}
}

func c12BRun(c C12BCase, st *kit.Stats) error {
	emu := kit.StartEmu("")
	defer emu.Stop()
	conn, other := emu.Dial(), emu.Dial()
	timeout := strconv.FormatFloat(float64(c.TimeoutMs)/1000, 'f', -1, 64)
	argv := c12BCmd(c, timeout)
	rounds := 1
	if c.Again {
		rounds = 2
	}
	for r := 0; r < rounds; r++ {
		if c.InMulti {
			// inside MULTI/EXEC blocking commands never block
			for _, a := range [][]string{{"MULTI"}, argv, {"PING"}} {
				if v, err := conn.Do(a...); err != nil || v.IsErr() {
					return fmt.Errorf("%v: %v %v", a, v, err)
				}
			}
			t0 := time.Now()
			v, err := conn.DoT(5*time.Second, "EXEC")
			d := time.Since(t0)
			if err != nil {
				return fmt.Errorf("EXEC containing %v on an empty list did not return within 5 s: %v", argv, err)
			}
			if v.K != kit.KArr || len(v.A) != 2 || v.A[0].K != kit.KNil {
				return fmt.Errorf("EXEC containing %v on an empty list replied %s, expected [nil PONG]", argv, v)
			}
			if d > 2*time.Second {
				return fmt.Errorf("EXEC containing %v took %v: the blocking command blocked inside MULTI", argv, d)
			}
			st.Class("inside-multi")
			continue
		}
		t0 := time.Now()
		if err := conn.Write(kit.EncodeCmd(argv...)); err != nil {
			return err
		}
		if c.TimeoutMs == 0 {
			// must still be blocked after 300 ms, and complete on a later push
			if v, err := conn.Read(300 * time.Millisecond); err != kit.ErrTimeout {
				return fmt.Errorf("%v with timeout 0 ended after %v without any push: %v %v", argv, time.Since(t0), v, err)
			}
			if v, err := other.Do("RPUSH", "q1", "e"); err != nil || v.IsErr() {
				return fmt.Errorf("RPUSH: %v %v", v, err)
			}
			v, err := conn.Read(5 * time.Second)
			if err != nil || v.IsErr() || v.K == kit.KNil {
				return fmt.Errorf("%v with timeout 0 was not served by a later push: %v %v", argv, v, err)
			}
			other.Do("DEL", "q1", "q2", "out")
			st.Class("timeout-0")
			continue
		}
		v, err := conn.Read(time.Duration(c.TimeoutMs)*time.Millisecond + 2*time.Second)
		d := time.Since(t0)
		if err != nil {
			return fmt.Errorf("%v did not complete within timeout + 2 s: %v", argv, err)
		}
		if v.K != kit.KNil {
			return fmt.Errorf("%v timed out with %s, expected a null reply", argv, v)
		}
		if d < time.Duration(c.TimeoutMs)*time.Millisecond {
			return fmt.Errorf("%v completed after %v, earlier than its timeout", argv, d)
		}
		st.Class("timed-out")
	}
	// the connection processes further commands normally
	if v, err := conn.Do("PING"); err != nil || !kit.Equal(v, kit.Simple("PONG")) {
		return fmt.Errorf("PING after the block replied %v %v", v, err)
	}
	if c.TimeoutMs%1000 != 0 {
		st.NonTrivial(fmt.Sprintf("%+v", c), map[string]any{"cmd": argv, "in_multi": c.InMulti, "again": c.Again})
	}
	return nil
}

func TestC12B(t *testing.T) {
	kit.Check(t, kit.Prop[C12BCase]{ID: "C12B", Gen: c12BGen, Run: c12BRun})
}
