package props

import (
	"fmt"
	"strconv"
	"testing"
	"time"

	"pgregory.net/rapid"

	"verifharness/kit"
)

// C12 part B — timeouts, timeout 0, and blocking commands inside MULTI (no hooks).

type C12BCase struct {
	Cmd       int  `json:"cmd"`        // 0 BLPOP 1 BRPOP 2 BLMOVE 3 BRPOPLPUSH 4 BLMPOP
	TimeoutUs int  `json:"timeout_us"` // microseconds; 0 = wait forever
	InMulti   bool `json:"in_multi"`
	Again     bool `json:"again"`     // block a second time on the same connection afterwards
	SelectDB  int  `json:"select_db"` // inside MULTI: a SELECT of this database is queued in front of the blocking command (0 = none)
}

func c12BGen(t *rapid.T) C12BCase {
	c := C12BCase{Cmd: rapid.IntRange(0, 4).Draw(t, "cmd"), InMulti: rapid.IntRange(0, 3).Draw(t, "multi") == 0, Again: rapid.Bool().Draw(t, "again"), SelectDB: pick(t, "seldb", 0, 0, 3, 9)}
	switch rapid.IntRange(0, 5).Draw(t, "tkind") {
	case 0:
		c.TimeoutUs = 0
	default:
		// whole and fractional milliseconds, below one millisecond too
		c.TimeoutUs = pick(t, "us", 400, 900, 1500, 2700, 10900, 15000, 25000, 33333, 50000, 75500, 100000, 120000, 150000, 250000, 300000)
	}
	return c
}

func c12BCmd(c C12BCase, timeout string) []string {
	switch c.Cmd {
	case 0:
		return []string{"BLPOP", "q1", "q2", timeout}
	case 1:
		return []string{"BRPOP", "q1", timeout}
	case 2:
		return []string{"BLMOVE", "q1", "out", "LEFT", "RIGHT", timeout}
	case 3:
		return []string{"BRPOPLPUSH", "q1", "out", timeout}
	}
	return []string{"BLMPOP", timeout, "2", "q1", "q2", "LEFT"}
}

func c12BRun(c C12BCase, st *kit.Stats) error {
	emu := kit.StartEmu("")
	defer emu.Stop()
	conn, other := emu.Dial(), emu.Dial()
	timeout := strconv.FormatFloat(float64(c.TimeoutUs)/1e6, 'f', -1, 64)
	argv := c12BCmd(c, timeout)
	rounds := 1
	if c.Again {
		rounds = 2
	}
	for r := 0; r < rounds; r++ {
		if c.InMulti {
			// inside MULTI/EXEC blocking commands never block
			queue := [][]string{{"MULTI"}, argv, {"PING"}}
			if c.SelectDB != 0 {
				// the blocking command runs in another database than the one the transaction started in
				queue = [][]string{{"MULTI"}, {"SELECT", strconv.Itoa(c.SelectDB)}, argv, {"SELECT", "0"}, {"PING"}}
			}
			for _, a := range queue {
				if v, err := conn.Do(a...); err != nil || v.IsErr() {
					return fmt.Errorf("%v: %v %v", a, v, err)
				}
			}
			t0 := time.Now()
			v, err := conn.DoT(5*time.Second, "EXEC")
			d := time.Since(t0)
			if err != nil {
				return fmt.Errorf("EXEC containing %v on an empty list did not return within 5 s: %v", argv, err)
			}
			blk := 0
			if c.SelectDB != 0 {
				blk = 1
			}
			if v.K != kit.KArr || len(v.A) != len(queue)-1 || v.A[blk].K != kit.KNil {
				return fmt.Errorf("EXEC of %v on empty lists replied %s, expected nil for the blocking command", queue[1:], v)
			}
			if d > 2*time.Second {
				return fmt.Errorf("EXEC containing %v took %v: the blocking command blocked inside MULTI", argv, d)
			}
			st.Class("inside-multi")
			continue
		}
		t0 := time.Now()
		if err := conn.Write(kit.EncodeCmd(argv...)); err != nil {
			return err
		}
		if c.TimeoutUs == 0 {
			// must still be blocked after 300 ms, and complete on a later push
			if v, err := conn.Read(300 * time.Millisecond); err != kit.ErrTimeout {
				return fmt.Errorf("%v with timeout 0 ended after %v without any push: %v %v", argv, time.Since(t0), v, err)
			}
			if v, err := other.Do("RPUSH", "q1", "e"); err != nil || v.IsErr() {
				return fmt.Errorf("RPUSH: %v %v", v, err)
			}
			v, err := conn.Read(5 * time.Second)
			if err != nil || v.IsErr() || v.K == kit.KNil {
				return fmt.Errorf("%v with timeout 0 was not served by a later push: %v %v", argv, v, err)
			}
			other.Do("DEL", "q1", "q2", "out")
			st.Class("timeout-0")
			continue
		}
		v, err := conn.Read(time.Duration(c.TimeoutUs)*time.Microsecond + 5*time.Second)
		d := time.Since(t0)
		if err != nil {
			return fmt.Errorf("%v did not complete within timeout + 5 s: %v", argv, err)
		}
		if v.K != kit.KNil {
			return fmt.Errorf("%v timed out with %s, expected a null reply", argv, v)
		}
		if d < time.Duration(c.TimeoutUs)*time.Microsecond {
			return fmt.Errorf("%v completed after %v, earlier than its timeout", argv, d)
		}
		st.Class("timed-out")
	}
	// the connection processes further commands normally
	if v, err := conn.Do("PING"); err != nil || !kit.Equal(v, kit.Simple("PONG")) {
		return fmt.Errorf("PING after the block replied %v %v", v, err)
	}
	if c.TimeoutUs%1000000 != 0 {
		st.NonTrivial(fmt.Sprintf("%+v", c), map[string]any{"cmd": argv, "in_multi": c.InMulti, "again": c.Again})
	}
	return nil
}

func TestC12B(t *testing.T) {
	kit.Check(t, kit.Prop[C12BCase]{ID: "C12B", Gen: c12BGen, Run: c12BRun})
}

// ---- part C: a wake-up that gives the client nothing must not extend its timeout ----------------------
//
// Two clients block with the same timeout t. One is left alone; the other is woken at a drawn fraction
// of t by a push whose element is taken away atomically (MULTI; RPUSH; LPOP; EXEC by a third client).
// Both must time out with nil; the disturbed one not noticeably later than the undisturbed one. The
// comparison is relative (both suffer the same machine load) and is repeated: only three misses in a
// row are a violation.

type C12CCase struct {
	Cmd       int `json:"cmd"`
	TimeoutMs int `json:"timeout_ms"`
	WakeAtPct int `json:"wake_at_pct"`
	Wakes     int `json:"wakes"`
}

func c12CGen(t *rapid.T) C12CCase {
	return C12CCase{Cmd: rapid.IntRange(0, 4).Draw(t, "cmd"), TimeoutMs: pick(t, "ms", 500, 700, 900), WakeAtPct: pick(t, "at", 40, 60, 75), Wakes: rapid.IntRange(1, 2).Draw(t, "wakes")}
}

func c12CRun(c C12CCase, st *kit.Stats) error {
	margin := time.Duration(c.TimeoutMs) * time.Millisecond * 30 / 100
	var lastErr error
	for attempt := 0; attempt < 3; attempt++ {
		emu := kit.StartEmu("")
		quiet, disturbed, third := emu.Dial(), emu.Dial(), emu.Dial()
		timeout := strconv.FormatFloat(float64(c.TimeoutMs)/1000, 'f', -1, 64)
		qa := c12BCmd(C12BCase{Cmd: c.Cmd}, timeout)
		da := append([]string(nil), qa...)
		// the quiet client waits on other keys
		for i, a := range qa {
			if a == "q1" {
				qa[i] = "p1"
			} else if a == "q2" {
				qa[i] = "p2"
			}
		}
		t0 := time.Now()
		quiet.Write(kit.EncodeCmd(qa...))
		disturbed.Write(kit.EncodeCmd(da...))
		type res struct {
			v   kit.Value
			err error
			d   time.Duration
		}
		ch := make(chan res, 2)
		go func() {
			v, err := quiet.Read(time.Duration(c.TimeoutMs)*time.Millisecond + 5*time.Second)
			ch <- res{v, err, time.Since(t0)}
		}()
		dch := make(chan res, 1)
		go func() {
			v, err := disturbed.Read(time.Duration(c.TimeoutMs)*time.Millisecond + 5*time.Second)
			dch <- res{v, err, time.Since(t0)}
		}()
		for w := 0; w < c.Wakes; w++ {
			at := time.Duration(c.TimeoutMs) * time.Millisecond * time.Duration(c.WakeAtPct) / 100
			if w == 1 {
				at += time.Duration(c.TimeoutMs) * time.Millisecond / 10
			}
			time.Sleep(time.Until(t0.Add(at)))
			third.Do("MULTI")
			third.Do("RPUSH", "q1", "gone")
			third.Do("LPOP", "q1")
			third.Do("EXEC")
		}
		q, d := <-ch, <-dch
		emu.Stop()
		if q.err != nil || d.err != nil {
			return fmt.Errorf("blocking command did not complete: quiet %v, disturbed %v", q.err, d.err)
		}
		if q.v.K != kit.KNil || d.v.K != kit.KNil {
			return fmt.Errorf("%v must time out with nil: quiet client got %s, disturbed client got %s", da, q.v, d.v)
		}
		if d.d < time.Duration(c.TimeoutMs)*time.Millisecond {
			return fmt.Errorf("%v completed after %v, earlier than its timeout", da, d.d)
		}
		if d.d <= q.d+margin {
			st.Class("woken-with-nothing-then-timed-out-on-time")
			st.NonTrivial(fmt.Sprintf("%+v", c), map[string]any{"cmd": da, "wake_at_pct": c.WakeAtPct, "wakes": c.Wakes})
			return nil
		}
		lastErr = fmt.Errorf("%v (timeout %d ms) was woken at %d%% of its timeout by a push whose element was gone; it then completed after %v while an undisturbed client with the same timeout completed after %v: the wake-up extended the timeout", da, c.TimeoutMs, c.WakeAtPct, d.d.Round(time.Millisecond), q.d.Round(time.Millisecond))
		st.Class("late-attempt")
	}
	return lastErr
}

func TestC12C(t *testing.T) {
	kit.Check(t, kit.Prop[C12CCase]{ID: "C12C", Gen: c12CGen, Run: c12CRun})
}

// ---- part D: one of several waiters leaves; the others are still served -------------------------------
//
// 2-5 clients block on the same key in a known order. One of them - any position, often the last one
// registered - ends its block by timeout, CLIENT UNBLOCK or CLIENT KILL. Then one element per remaining
// waiter is pushed: every remaining waiter is served, oldest first, and the list ends empty.

type C12DCase struct {
	Waiters int `json:"waiters"`
	Leaver  int `json:"leaver"` // index of the waiter whose block ends
	How     int `json:"how"`    // 0 timeout 1 CLIENT UNBLOCK 2 CLIENT UNBLOCK ERROR 3 CLIENT KILL
	Cmd     int `json:"cmd"`    // 0 BLPOP 1 BRPOP k other 2 BLMPOP
}

func c12DGen(t *rapid.T) C12DCase {
	c := C12DCase{Waiters: rapid.IntRange(2, 5).Draw(t, "waiters"), How: rapid.IntRange(0, 3).Draw(t, "how"), Cmd: rapid.IntRange(0, 2).Draw(t, "cmd")}
	c.Leaver = c.Waiters - 1
	if rapid.IntRange(0, 2).Draw(t, "anypos") == 0 {
		c.Leaver = rapid.IntRange(0, c.Waiters-1).Draw(t, "leaver")
	}
	return c
}

func c12DRun(c C12DCase, st *kit.Stats) error {
	emu := kit.StartEmu("")
	defer emu.Stop()
	admin := emu.Dial()
	conns := make([]*kit.Conn, c.Waiters)
	ids := make([]string, c.Waiters)
	for i := range conns {
		conns[i] = emu.Dial()
		v, _ := conns[i].Do("CLIENT", "ID")
		ids[i] = strconv.FormatInt(v.I, 10)
		to := "0"
		if i == c.Leaver && c.How == 0 {
			to = "0.06"
		}
		argv := [][]string{{"BLPOP", "wq", to}, {"BRPOP", "wq", "other", to}, {"BLMPOP", to, "1", "wq", "LEFT"}}[c.Cmd]
		conns[i].Write(kit.EncodeCmd(argv...))
		time.Sleep(4 * time.Millisecond) // registration order = connection order
	}
	lv := conns[c.Leaver]
	switch c.How {
	case 0:
		if v, err := lv.Read(3 * time.Second); err != nil || v.K != kit.KNil {
			return fmt.Errorf("the waiter with a 60 ms timeout replied %v %v", v, err)
		}
	case 1, 2:
		a := []string{"CLIENT", "UNBLOCK", ids[c.Leaver]}
		if c.How == 2 {
			a = append(a, "ERROR")
		}
		if v, err := admin.Do(a...); err != nil || !kit.Equal(v, kit.Int(1)) {
			return fmt.Errorf("%v replied %v %v", a, v, err)
		}
		if _, err := lv.Read(3 * time.Second); err != nil {
			return fmt.Errorf("the unblocked client got no reply: %v", err)
		}
	default:
		admin.Do("CLIENT", "KILL", "ID", ids[c.Leaver])
		time.Sleep(5 * time.Millisecond)
	}
	// one element per remaining waiter, one push at a time: each goes to exactly one of the clients still
	// blocked (which of them is the oldest is decided by the order in which the server saw them)
	pending := map[int]*kit.Conn{}
	for i, cn := range conns {
		if i != c.Leaver {
			pending[i] = cn
		}
	}
	for n := 0; len(pending) > 0; n++ {
		e := "e" + strconv.Itoa(n)
		if v, err := admin.Do("RPUSH", "wq", e); err != nil || v.IsErr() {
			return fmt.Errorf("RPUSH: %v %v", v, err)
		}
		served := -1
		deadline := time.Now().Add(5 * time.Second)
		for served < 0 && time.Now().Before(deadline) {
			for i := 0; i < c.Waiters && served < 0; i++ {
				cn := pending[i]
				if cn == nil {
					continue
				}
				v, err := cn.Read(20 * time.Millisecond)
				if err == kit.ErrTimeout {
					continue
				}
				if err != nil {
					return fmt.Errorf("client %d: %v", i, err)
				}
				if v.K != kit.KArr || len(v.A) != 2 || (v.A[1].S != e && !(v.A[1].K == kit.KArr && len(v.A[1].A) == 1 && v.A[1].A[0].S == e)) {
					return fmt.Errorf("client %d was served %s, expected element %q", i, v, e)
				}
				served = i
			}
		}
		if served < 0 {
			lr, _ := admin.Do("LRANGE", "wq", "0", "-1")
			return fmt.Errorf("%d clients blocked on one list; client %d (in order of blocking) ended its block (%s); then %q was pushed: none of the %d clients still blocked was served within 5 s; the list holds %s",
				c.Waiters, c.Leaver, []string{"timeout", "CLIENT UNBLOCK", "CLIENT UNBLOCK ERROR", "CLIENT KILL"}[c.How], e, len(pending), lr)
		}
		delete(pending, served)
	}
	if v, _ := admin.Do("LLEN", "wq"); !kit.Equal(v, kit.Int(0)) {
		return fmt.Errorf("after every remaining waiter was served the list still holds %s elements", v)
	}
	st.Class("leaver:" + []string{"timeout", "unblock", "unblock-error", "kill"}[c.How])
	st.NonTrivial(fmt.Sprintf("%+v", c), c)
	return nil
}

func TestC12D(t *testing.T) {
	kit.Check(t, kit.Prop[C12DCase]{ID: "C12D", Gen: c12DGen, Run: c12DRun})
}
