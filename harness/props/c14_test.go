package props

import (
	"fmt"
	"strconv"
	"strings"
	"sync"
	"testing"
	"time"

	"pgregory.net/rapid"

	"verifharness/kit"
	"verifharness/model"
)

// C14 — databases isolated per index; flushes global; session state per connection.

func c14Data(t *rapid.T) []string {
	k := pick(t, "k", "a", "b", "l", "h", "s")
	v := pick(t, "v", "1", "2", "x", "yy")
	return pick(t, "data",
		[]string{"SET", k, v}, []string{"SET", k, v}, []string{"GET", k}, []string{"DEL", k}, []string{"EXISTS", k}, []string{"INCR", "a"},
		[]string{"RPUSH", "l", v}, []string{"LRANGE", "l", "0", "-1"}, []string{"HSET", "h", "f", v}, []string{"HGETALL", "h"},
		[]string{"SADD", "s", v}, []string{"SMEMBERS", "s"}, []string{"DBSIZE"}, []string{"KEYS", "*"}, []string{"TYPE", k},
		[]string{"RENAME", "a", "b"}, []string{"PEXPIREAT", k, "4102444800000"}, []string{"RANDOMKEY"},
	)
}

func c14Gen(t *rapid.T) MultiCase {
	c := MultiCase{Conns: rapid.IntRange(2, 4).Draw(t, "conns")}
	n := rapid.IntRange(8, 40).Draw(t, "steps")
	hotDbs := []string{"0", "1", "2", "15", pick(t, "hot", "3", "7", "14")}
	for i := 0; i < n; i++ {
		conn := rapid.IntRange(0, c.Conns-1).Draw(t, "conn")
		var a []string
		switch weighted(t, "kind", []int{16, 8, 2, 3, 2, 2, 2, 2, 1, 1, 1}) {
		case 0:
			a = c14Data(t)
		case 1:
			a = []string{randCase(t, "SELECT"), pick(t, "db", hotDbs...)}
		case 2:
			a = []string{"SELECT", pick(t, "baddb", "16", "-1", "100", "abc", "9223372036854775807", "")}
		case 3:
			a = []string{randCase(t, "FLUSHDB")}
			if m := pick(t, "fmod", "", "", "ASYNC", "SYNC", "async"); m != "" {
				a = append(a, m)
			}
		case 4:
			a = []string{randCase(t, "FLUSHALL")}
			if m := pick(t, "fmod", "", "", "ASYNC", "SYNC", "async"); m != "" {
				a = append(a, m)
			}
		case 5:
			a = []string{"CLIENT", randCase(t, "SETNAME"), "name" + strconv.Itoa(rapid.IntRange(0, 3).Draw(t, "nm"))}
		case 6:
			a = []string{"CLIENT", "GETNAME"}
		case 7:
			a = []string{"HELLO", pick(t, "proto", "2", "3")}
		case 8:
			a = []string{"MULTI"}
		case 9:
			a = []string{pick(t, "end", "EXEC", "EXEC", "DISCARD")}
		default:
			a = []string{"WATCH", pick(t, "wk", "a", "l")}
		}
		c.Steps = append(c.Steps, MStep{Conn: conn, Argv: kit.A(a...)})
	}
	// close every open transaction so the final state is comparable, then look at everything once more
	for conn := 0; conn < c.Conns; conn++ {
		c.Steps = append(c.Steps, MStep{Conn: conn, Argv: kit.A("EXEC")}, MStep{Conn: conn, Argv: kit.A("DBSIZE")}, MStep{Conn: conn, Argv: kit.A("CLIENT", "GETNAME")}, MStep{Conn: conn, Argv: kit.A("HELLO")})
	}
	return c
}

func c14Observe(step MStep, exp model.Exp, got kit.Value, srv *model.Server, sess []*model.Session, st *kit.Stats, flags map[string]int) {
	name := upper(string(step.Argv[0]))
	st.Class("cmd:" + name)
	var me *model.Session
	for _, s := range sess {
		if s.ID == step.Conn {
			me = s
		}
	}
	if me == nil {
		return
	}
	switch name {
	case "FLUSHDB", "FLUSHALL":
		if exp.Kind == model.EVal && exp.V.K == kit.KSimple && exp.V.S == "QUEUED" {
			return
		}
		// how many other connections had this database selected and had touched it
		others := 0
		for _, s := range sess {
			if s != me && (name == "FLUSHALL" || s.DB == me.DB) && flags["touched:"+strconv.Itoa(s.ID)+":"+strconv.Itoa(s.DB)] > 0 {
				others++
			}
		}
		if others >= 1 && flags["touched:"+strconv.Itoa(me.ID)+":"+strconv.Itoa(me.DB)] > 0 {
			flags["flushShared"]++
			flags["lastFlushBy"] = me.ID + 1
			st.Class("flush-of-a-database-shared-by-several-connections")
		}
		for _, s := range sess {
			if s.InMulti && s != me {
				st.Class("flush-while-another-connection-is-inside-MULTI")
			}
		}
	case "SELECT":
		if exp.IsErr() {
			st.Class("select-rejected")
		}
	default:
		if !exp.IsErr() && (model.Known(name)) {
			flags["touched:"+strconv.Itoa(me.ID)+":"+strconv.Itoa(me.DB)]++
			if flags["lastFlushBy"] > 0 && flags["lastFlushBy"] != me.ID+1 {
				flags["afterFlushOther"]++
			}
		}
	}
	// same key name with different values in >= 2 databases
	holders := 0
	for _, db := range srv.DBs {
		if _, ok := db.Keys["a"]; ok {
			holders++
		}
	}
	if holders >= 2 {
		flags["samekey"]++
	}
}

func c14Run(c MultiCase, st *kit.Stats) error {
	flags := map[string]int{}
	err := runMulti(c, st, multiHooks{observe: c14Observe, dumpAll: true}, flags)
	if err == nil && ((flags["flushShared"] > 0 && flags["afterFlushOther"] > 0) || flags["samekey"] > 0) {
		st.NonTrivial(c.Canon(), c.Sample())
	}
	return err
}

func TestC14(t *testing.T) {
	kit.Check(t, kit.Prop[MultiCase]{ID: "C14", Gen: c14Gen, Run: c14Run})
}

// ---- part B: connections blocked or inside MULTI while another connection flushes ------------------------

type C14BCase struct {
	DB      int  `json:"db"`
	All     bool `json:"all"`      // FLUSHALL instead of FLUSHDB
	SameDB  bool `json:"same_db"`  // the flusher has the same database selected
	InMulti bool `json:"in_multi"` // a third connection sits inside MULTI with queued writes during the flush
	Blocked int  `json:"blocked"`  // 0 BLPOP 1 BRPOP 2 BLMOVE
}

func c14BGen(t *rapid.T) C14BCase {
	return C14BCase{DB: pick(t, "db", 0, 1, 7, 15), All: rapid.Bool().Draw(t, "all"), SameDB: rapid.Bool().Draw(t, "same"), InMulti: rapid.Bool().Draw(t, "multi"), Blocked: rapid.IntRange(0, 2).Draw(t, "blk")}
}

func c14BRun(c C14BCase, st *kit.Stats) error {
	emu := kit.StartEmu("")
	defer emu.Stop()
	db := strconv.Itoa(c.DB)
	waiter, flusher, pusher, txc := emu.Dial(), emu.Dial(), emu.Dial(), emu.Dial()
	for _, cn := range []*kit.Conn{waiter, pusher, txc} {
		cn.Do("SELECT", db)
	}
	if c.SameDB {
		flusher.Do("SELECT", db)
	} else {
		flusher.Do("SELECT", strconv.Itoa((c.DB+1)%16))
	}
	pusher.Do("SET", "old", "data")
	var blk []string
	switch c.Blocked {
	case 0:
		blk = []string{"BLPOP", "q", "0"}
	case 1:
		blk = []string{"BRPOP", "other", "q", "0"}
	default:
		blk = []string{"BLMOVE", "q", "dst", "LEFT", "RIGHT", "0"}
	}
	waiter.Write(kit.EncodeCmd(blk...))
	if c.InMulti {
		txc.Do("MULTI")
		txc.Do("SET", "fromtx", "1")
		txc.Do("RPUSH", "txlist", "a")
	}
	time.Sleep(3 * time.Millisecond) // let the blocking command register
	fl := "FLUSHDB"
	if c.All {
		fl = "FLUSHALL"
	}
	if v, err := flusher.Do(fl); err != nil || v.IsErr() {
		return fmt.Errorf("%s: %v %v", fl, v, err)
	}
	flushedWaitersDb := c.All || c.SameDB
	// the flush is what every connection sees
	v, _ := pusher.Do("EXISTS", "old")
	if flushedWaitersDb && !kit.Equal(v, kit.Int(0)) {
		return fmt.Errorf("after %s by another connection, a connection that had database %s selected before still sees the old key", fl, db)
	}
	if !flushedWaitersDb && !kit.Equal(v, kit.Int(1)) {
		return fmt.Errorf("%s on database %d emptied database %s", fl, (c.DB+1)%16, db)
	}
	// the blocked client is still served through the (flushed) database
	if v, err := pusher.Do("RPUSH", "q", "after-flush"); err != nil || v.IsErr() {
		return fmt.Errorf("RPUSH after flush: %v %v", v, err)
	}
	r, err := waiter.Read(5 * time.Second)
	if err != nil {
		return fmt.Errorf("a client blocked in %v before the %s was not served by a push after it: %v", blk, fl, err)
	}
	if r.IsErr() || r.K == kit.KNil {
		return fmt.Errorf("blocked client replied %s", r)
	}
	if c.InMulti {
		v, err := txc.Do("EXEC")
		if err != nil || v.K != kit.KArr || len(v.A) != 2 {
			return fmt.Errorf("EXEC of a transaction that was open during the %s replied %v %v", fl, v, err)
		}
		g, _ := pusher.Do("GET", "fromtx")
		if !kit.Equal(g, kit.Bulk("1")) {
			return fmt.Errorf("writes of a transaction executed after the %s are not visible to other connections (GET fromtx -> %s)", fl, g)
		}
	}
	st.Class(fl)
	st.NonTrivial(fmt.Sprintf("%+v", c), c)
	return nil
}

func TestC14B(t *testing.T) {
	kit.Check(t, kit.Prop[C14BCase]{ID: "C14B", Gen: c14BGen, Run: c14BRun})
}

// ---- part C: a flush empties the database whatever its table went through before -------------------------

type C14CCase struct {
	DB    int    `json:"db"`
	Keys  int    `json:"keys"`  // keys written before every flush (names from a wide space)
	Churn []int  `json:"churn"` // per round: add/remove cycles of an unrelated key before the flush
	All   []bool `json:"all"`   // per round: FLUSHALL instead of FLUSHDB
	Salt  int    `json:"salt"`
}

func c14CGen(t *rapid.T) C14CCase {
	c := C14CCase{DB: pick(t, "db", 0, 3, 15), Keys: rapid.IntRange(3, 40).Draw(t, "keys"), Salt: rapid.IntRange(0, 999).Draw(t, "salt")}
	for n := rapid.IntRange(1, 30).Draw(t, "rounds"); n > 0; n-- {
		c.Churn = append(c.Churn, churnCount(t))
		c.All = append(c.All, rapid.Bool().Draw(t, "all"))
	}
	return c
}

func c14CRun(c C14CCase, st *kit.Stats) error {
	emu := kit.StartEmu("")
	defer emu.Stop()
	w, o, other := emu.Dial(), emu.Dial(), emu.Dial()
	db := strconv.Itoa(c.DB)
	w.Do("SELECT", db)
	o.Do("SELECT", db)
	otherDB := strconv.Itoa((c.DB + 1) % 16)
	other.Do("SELECT", otherDB)
	for r := range c.Churn {
		other.Do("SET", "bystander", "1")
		mset := []string{"MSET"}
		for i := 0; i < c.Keys; i++ {
			mset = append(mset, fmt.Sprintf("w%d.%d", (i*37+r)%200, c.Salt), "v")
		}
		w.Do(mset...)
		for i := 0; i < c.Churn[r]; i++ {
			w.Do("SET", "churn", "1")
			w.Do("DEL", "churn")
		}
		fl := "FLUSHDB"
		if c.All[r] {
			fl = "FLUSHALL"
		}
		flusher := w
		if r%2 == 1 {
			flusher = o
		}
		fla := []string{fl}
		if r%3 == 1 {
			fla = append(fla, "ASYNC") // asynchronous only in how memory is reclaimed: the keys are gone when the reply is sent
		} else if r%3 == 2 {
			fla = append(fla, "SYNC")
		}
		if v, err := flusher.Do(fla...); err != nil || v.IsErr() {
			return fmt.Errorf("%s: %v %v", fl, v, err)
		}
		for _, cn := range []*kit.Conn{w, o} {
			v, _ := cn.Do("DBSIZE")
			ks, _ := cn.Do("KEYS", "*")
			if !kit.Equal(v, kit.Int(0)) || len(ks.A) != 0 {
				return fmt.Errorf("round %d: after %s of database %s (%d keys, %d add/remove cycles before it) DBSIZE is %s and KEYS * lists %d keys", r, fl, db, c.Keys, c.Churn[r], v, len(ks.A))
			}
		}
		v, _ := other.Do("EXISTS", "bystander")
		if c.All[r] != kit.Equal(v, kit.Int(0)) {
			return fmt.Errorf("round %d: after %s on database %s, a key of database %s exists: %s", r, fl, db, otherDB, v)
		}
	}
	st.Class(fmt.Sprintf("rounds:%d", len(c.Churn)/10*10))
	if len(c.Churn) > 1 {
		st.NonTrivial(fmt.Sprintf("%+v", c), c)
	}
	return nil
}

func TestC14C(t *testing.T) {
	kit.Check(t, kit.Prop[C14CCase]{ID: "C14C", Gen: c14CGen, Run: c14CRun})
}

// ---- part D: connections that select a database for the first time at the same moment ------------------

type C14DCase struct {
	Conns     int `json:"conns"`
	Emulators int `json:"emulators"` // each serves its 15 untouched indexes once
}

func c14DGen(t *rapid.T) C14DCase {
	return C14DCase{Conns: rapid.IntRange(2, 10).Draw(t, "conns"), Emulators: rapid.IntRange(1, 4).Draw(t, "emus")}
}

func c14DRun(c C14DCase, st *kit.Stats) error {
	for e := 0; e < c.Emulators; e++ {
		emu := kit.StartEmu("")
		conns := make([]*kit.Conn, c.Conns)
		for i := range conns {
			conns[i] = emu.Dial()
			conns[i].Do("PING")
		}
		for db := 1; db <= 15; db++ {
			var wg sync.WaitGroup
			start := make(chan struct{})
			sel := kit.EncodeCmd("SELECT", strconv.Itoa(db))
			for _, cn := range conns {
				wg.Add(1)
				go func(cn *kit.Conn) {
					defer wg.Done()
					<-start
					cn.Write(sel)
					cn.Read(5 * time.Second)
				}(cn)
			}
			close(start)
			wg.Wait()
			// one namespace per index: what one connection writes there, all the others read
			for i, cn := range conns {
				if v, err := cn.Do("SET", "from"+strconv.Itoa(i), "1"); err != nil || v.IsErr() {
					emu.Stop()
					return fmt.Errorf("SET: %v %v", v, err)
				}
			}
			for i, cn := range conns {
				v, err := cn.Do("DBSIZE")
				if err != nil || !kit.Equal(v, kit.Int(int64(c.Conns))) {
					emu.Stop()
					return fmt.Errorf("%d connections sent their first SELECT %d at the same moment and then wrote one key each: connection %d sees DBSIZE %v, not %d: they are not in the same database", c.Conns, db, i, v, c.Conns)
				}
			}
			conns[0].Do("FLUSHDB")
			if v, _ := conns[c.Conns-1].Do("DBSIZE"); !kit.Equal(v, kit.Int(0)) {
				emu.Stop()
				return fmt.Errorf("after FLUSHDB by one of %d connections that selected database %d at the same moment, another one still sees DBSIZE %s", c.Conns, db, v)
			}
		}
		emu.Stop()
	}
	st.ClassN("simultaneous-first-selects", 15*c.Emulators)
	st.NonTrivial(fmt.Sprintf("%+v", c), c)
	return nil
}

func TestC14D(t *testing.T) {
	kit.Check(t, kit.Prop[C14DCase]{ID: "C14D", Gen: c14DGen, Run: c14DRun})
}

// ---- part E: what a connection reports about itself follows its real selection -------------------------

type C14ECase struct {
	Selects []string `json:"selects"` // SELECT arguments, valid and invalid
}

func c14EGen(t *rapid.T) C14ECase {
	var c C14ECase
	for n := rapid.IntRange(1, 8).Draw(t, "n"); n > 0; n-- {
		c.Selects = append(c.Selects, pick(t, "sel", "0", "1", "3", "15", "16", "99", "-1", "abc", "", "9223372036854775807", "7", "2"))
	}
	return c
}

func c14ERun(c C14ECase, st *kit.Stats) error {
	emu := kit.StartEmu("")
	defer emu.Stop()
	conn, other := emu.Dial(), emu.Dial()
	conn.Proto, other.Proto = 0, 0
	idv, _ := conn.Do("CLIENT", "ID")
	cur := 0
	field := func(text, name string) string {
		for _, f := range strings.Fields(text) {
			if strings.HasPrefix(f, name+"=") {
				return strings.TrimPrefix(f, name+"=")
			}
		}
		return ""
	}
	for i, a := range c.Selects {
		v, err := conn.Do("SELECT", a)
		if err != nil {
			return fmt.Errorf("SELECT %q: %v", a, err)
		}
		n, perr := strconv.Atoi(a)
		valid := perr == nil && n >= 0 && n <= 15 && strconv.Itoa(n) == a
		if valid != !v.IsErr() {
			return fmt.Errorf("SELECT %q replied %s", a, v)
		}
		if valid {
			cur = n
		} else {
			st.Class("select-rejected")
		}
		// the connection's own report, the report others get about it, and where its data goes
		info, _ := conn.Do("CLIENT", "INFO")
		if got := field(info.S, "db"); got != strconv.Itoa(cur) {
			return fmt.Errorf("after SELECT %v (the last one %s) CLIENT INFO reports db=%s, the connection is in database %d", c.Selects[:i+1], map[bool]string{true: "accepted", false: "rejected"}[valid], got, cur)
		}
		list, _ := other.Do("CLIENT", "LIST")
		for _, line := range strings.Split(list.S, "\n") {
			if field(line, "id") == strconv.FormatInt(idv.I, 10) {
				if got := field(line, "db"); got != strconv.Itoa(cur) {
					return fmt.Errorf("after SELECT %v CLIENT LIST (asked by another connection) reports db=%s for the connection, which is in database %d", c.Selects[:i+1], got, cur)
				}
			}
		}
		marker := "marker-" + strconv.Itoa(i)
		conn.Do("SET", marker, "1")
		other.Do("SELECT", strconv.Itoa(cur))
		if e, _ := other.Do("EXISTS", marker); !kit.Equal(e, kit.Int(1)) {
			return fmt.Errorf("after SELECT %v a key written by the connection is not in database %d", c.Selects[:i+1], cur)
		}
	}
	st.NonTrivial(fmt.Sprintf("%v", c.Selects), c)
	return nil
}

func TestC14E(t *testing.T) {
	kit.Check(t, kit.Prop[C14ECase]{ID: "C14E", Gen: c14EGen, Run: c14ERun})
}
