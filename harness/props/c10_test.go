package props

import (
	"fmt"
	"testing"

	"pgregory.net/rapid"

	"verifharness/kit"
	"verifharness/model"
)

// C10 — WATCH: EXEC runs iff no watched key was modified since WATCH.
//
// A case is a sequence of matrix cells executed on one emulator (FLUSHALL + fresh set-up between
// cells). A cell: T watches 1-2 keys; one intervening command (any write template of the command
// inventory, a read, a failing write, a no-op write, a flush, a rename onto/from ...) is issued by T
// or by another connection O, before WATCH / between WATCH and MULTI / between MULTI and EXEC;
// optionally UNWATCH or a MULTI..DISCARD in between; then T runs MULTI, SET marker, EXEC.
// The server model decides whether EXEC must be null, must run, or may do either (a successful
// write that left value and deadline identical).

type c10Cell struct {
	steps []MStep
}

func c10Intervening(t *rapid.T, tmplIdx int, w string, wType model.Type) []string {
	other := func() string {
		return pick(t, "other", "o1", "o2", typedKey(pick(t, "oty", allTypes...), 0))
	}
	switch rapid.IntRange(0, 9).Draw(t, "ikind") {
	case 0:
		// special keyspace-level modifications
		return pick(t, "special",
			[]string{"DEL", w}, []string{"UNLINK", w}, []string{"FLUSHDB"}, []string{"FLUSHALL"},
			[]string{"RENAME", w, "o9"}, []string{"RENAME", "ks1", w}, []string{"RENAMENX", "kl1", w}, []string{"COPY", "kh1", w, "REPLACE"}, []string{"COPY", "kh1", w},
			[]string{"SORT", "kl", "STORE", w}, []string{"SET", w, "10"}, []string{"MSET", w, "10", "o1", "1"}, []string{"GETSET", w, "10"},
			[]string{"PEXPIREAT", w, "4102444800000"}, []string{"PEXPIREAT", w, "1000000000000"}, []string{"EXPIRE", w, "-1"}, []string{"PERSIST", w},
			[]string{"EXPIRE", w, "100000", "NX"}, []string{"EXPIRE", w, "100000", "XX"}, []string{"GETEX", w, "PERSIST"}, []string{"GETEX", w},
			[]string{"SUNIONSTORE", w, "kz", "kz1"}, []string{"SINTERSTORE", w, "kz", "kmiss"}, []string{"BITOP", "AND", w, "ks", "ks1"},
			[]string{"LMOVE", "kl", w, "LEFT", "RIGHT"}, []string{"LMOVE", w, "kl1", "RIGHT", "LEFT"}, []string{"SMOVE", "kz", w, "m"}, []string{"SMOVE", w, "kz1", "m"},
		)
	case 1:
		// writes that Redis treats as "nothing done" or that leave the state identical
		return pick(t, "noop",
			[]string{"SADD", w, "m"}, []string{"SREM", w, "nosuch"}, []string{"HDEL", w, "nosuch"}, []string{"LREM", w, "0", "nosuch"},
			[]string{"HSET", w, "f", "1"}, []string{"LTRIM", w, "0", "-1"}, []string{"LSET", w, "0", "3"}, []string{"SETRANGE", w, "0", "1"}, []string{"APPEND", w, ""},
			[]string{"SETNX", w, "zz"}, []string{"SET", w, "zz", "NX"}, []string{"HSETNX", w, "f", "zz"}, []string{"LPUSHX", "kmiss", "e"}, []string{"DEL", "kmiss"},
			[]string{"INCRBY", w, "0"}, []string{"HINCRBY", w, "f", "0"}, []string{"LINSERT", w, "BEFORE", "nosuch", "e"}, []string{"SMOVE", w, w, "m"}, []string{"RENAME", w, w},
			[]string{"LMOVE", w, w, "LEFT", "LEFT"}, []string{"MSETNX", w, "1", "o1", "2"}, []string{"COPY", "kmiss", w}, []string{"RENAMENX", "ks1", w},
		)
	case 2:
		// modification of another key only
		o := other()
		return pick(t, "otherkey", []string{"SET", o, "1"}, []string{"DEL", o}, []string{"RPUSH", "o1", "e"}, []string{"INCR", "o2"}, []string{"EXPIRE", o, "100000"})
	}
	// any template of the inventory; the watched key in one slot
	tm := cmdTable[tmplIdx%len(cmdTable)]
	keys := make([]string, tm.slots)
	pos := rapid.IntRange(0, tm.slots-1).Draw(t, "slot")
	for i := range keys {
		if i == pos {
			keys[i] = w
		} else {
			keys[i] = other()
		}
	}
	return tm.mk(t, keys)
}

// c10Restoring: command sequences after which the watched key holds exactly what it held before - moved away
// and back, copied aside, deleted and restored, grown and shrunk again. Every one of them modifies the key.
func c10Restoring(t *rapid.T, w string, wType model.Type) [][]string {
	any := [][][]string{
		{{"RENAME", w, "tmpk"}, {"RENAME", "tmpk", w}},
		{{"COPY", w, "bak"}, {"DEL", w}, {"RENAME", "bak", w}},
		{{"RENAME", w, "tmpk"}, {"COPY", "tmpk", w}, {"DEL", "tmpk"}},
		{{"COPY", w, "bak"}, {"UNLINK", w}, {"COPY", "bak", w}},
		{{"PEXPIREAT", w, "4102444800000"}, {"PERSIST", w}},
		{{"RENAME", w, "tmpk"}, {"RENAME", "tmpk", "tmpk2"}, {"RENAME", "tmpk2", w}},
	}
	// the database flushed and built up again by exactly the commands that built it the first time
	for _, fl := range []string{"FLUSHDB", "FLUSHALL"} {
		seq := [][]string{{fl}}
		seq = append(seq, setupTyped()...)
		any = append(any, seq)
	}
	switch wType {
	case model.TString:
		any = append(any, [][]string{{"INCR", w}, {"DECR", w}}, [][]string{{"SETBIT", w, "7", "1"}, {"SETBIT", w, "7", "0"}})
	case model.TList:
		any = append(any, [][]string{{"RPUSH", w, "extra"}, {"RPOP", w}}, [][]string{{"LPUSH", w, "extra"}, {"LPOP", w}}, [][]string{{"LMOVE", w, "tmpl", "RIGHT", "LEFT"}, {"LMOVE", "tmpl", w, "LEFT", "RIGHT"}})
	case model.THash:
		any = append(any, [][]string{{"HSET", w, "extra", "1"}, {"HDEL", w, "extra"}}, [][]string{{"HINCRBY", w, "cnt", "1"}, {"HDEL", w, "cnt"}})
	case model.TSet:
		any = append(any, [][]string{{"SADD", w, "extra"}, {"SREM", w, "extra"}}, [][]string{{"SADD", w, "extra"}, {"SMOVE", w, "tmps", "extra"}})
	}
	return any[rapid.IntRange(0, len(any)-1).Draw(t, "restoring")]
}

func c10GenCell(t *rapid.T, cellNo int, base int, add func(conn int, a ...string)) {
	// fresh state
	add(0, "FLUSHALL")
	for _, s := range setupTyped() {
		add(0, s...)
	}
	tmplIdx := base + cellNo
	tm := cmdTable[tmplIdx%len(cmdTable)]
	wType := tm.on
	if wType == model.TNone || rapid.IntRange(0, 5).Draw(t, "othertype") == 0 {
		wType = pick(t, "wty", model.TNone, model.TString, model.TList, model.THash, model.TSet)
	}
	w := typedKey(wType, rapid.IntRange(0, 1).Draw(t, "wvar"))
	if wType == model.TNone {
		w = "kmiss"
	}
	watched := []string{w}
	switch rapid.IntRange(0, 3).Draw(t, "wset") {
	case 0:
		watched = []string{w, "o1"}
	case 1:
		watched = []string{"o2", w}
	}
	issuer := rapid.IntRange(0, 1).Draw(t, "issuer") // 0 = T itself, 1 = O
	position := rapid.IntRange(0, 2).Draw(t, "position")
	cmds := [][]string{c10Intervening(t, tmplIdx, w, wType)}
	if wType != model.TNone && rapid.IntRange(0, 3).Draw(t, "restoring-seq") == 0 {
		cmds = c10Restoring(t, w, wType)
	}
	if position == 2 {
		issuer = 1 // a command of T after MULTI would be queued, not executed
	}
	if position == 0 {
		for _, cmd := range cmds {
			add(issuer, cmd...)
		}
	}
	add(0, append([]string{"WATCH"}, watched...)...)
	if position == 1 {
		for _, cmd := range cmds {
			add(issuer, cmd...)
		}
	}
	switch rapid.IntRange(0, 9).Draw(t, "between") {
	case 0:
		add(0, "UNWATCH")
	case 1:
		add(0, "MULTI")
		add(0, "DISCARD")
	case 2:
		add(0, "MULTI")
		add(0, "PING")
		add(0, "EXEC")
	case 3:
		// a read by the other connection never counts
		add(1, pick(t, "read", "EXISTS", "TYPE", "PEXPIRETIME"), w)
	case 4:
		add(0, "WATCH", w) // watching again must not forget
	}
	add(0, "MULTI")
	if position == 2 {
		for _, cmd := range cmds {
			add(issuer, cmd...)
		}
	}
	add(0, "SET", "marker", "1")
	add(0, "EXEC")
	add(0, "EXISTS", "marker")
}

func c10Gen(t *rapid.T) MultiCase {
	c := MultiCase{Conns: 2}
	add := func(conn int, a ...string) { c.Steps = append(c.Steps, MStep{Conn: conn, Argv: kit.A(a...)}) }
	base := rapid.IntRange(0, len(cmdTable)-1).Draw(t, "base")
	cells := rapid.IntRange(2, 6).Draw(t, "cells")
	for i := 0; i < cells; i++ {
		c10GenCell(t, i, base, add)
	}
	return c
}

func c10Observe(step MStep, exp model.Exp, got kit.Value, srv *model.Server, sess []*model.Session, st *kit.Stats, flags map[string]int) {
	name := upper(string(step.Argv[0]))
	switch name {
	case "FLUSHALL":
		if step.Conn == 0 && len(sess[0].Watches) == 0 {
			flags["cmd"] = 0
		}
	case "EXEC":
		outcome := "ran"
		if exp.Kind == model.EVal && exp.V.K == kit.KNil {
			outcome = "aborted"
		}
		st.Class("exec:" + outcome)
		if flags["cells"] >= 0 {
			flags["cells"]++
		}
		if outcome == "aborted" {
			flags["aborted"]++
		} else {
			flags["ran"]++
		}
	case "WATCH", "MULTI", "SET", "EXISTS", "UNWATCH", "DISCARD", "PING":
	default:
		st.Class(fmt.Sprintf("intervening:%s:by-c%d", name, step.Conn))
		if exp.IsErr() {
			st.Class("intervening-failed")
		}
	}
}

func c10Run(c MultiCase, st *kit.Stats) error {
	flags := map[string]int{}
	err := runMulti(c, st, multiHooks{observe: c10Observe, dumpAll: false}, flags)
	if err == nil && flags["aborted"] > 0 && flags["ran"] > 0 {
		st.NonTrivial(c.Canon(), c.Sample())
	}
	return err
}

func TestC10(t *testing.T) {
	kit.Check(t, kit.Prop[MultiCase]{ID: "C10", Gen: c10Gen, Run: c10Run})
}
