package props

import (
	"strconv"

	"pgregory.net/rapid"

	"verifharness/model"
)

// tmpl is one entry of the command inventory (DESIGN.md appendix A): a data command with its key
// slots. It drives the command x key-type matrix (C06), the stale-key differential (C07), the WATCH
// matrix (C10) and workload mixes.
type tmpl struct {
	name  string
	on    model.Type // type the command operates on; TNone = type agnostic
	slots int        // number of key arguments
	write bool       // may modify the keyspace
	// wtSlots lists the slots where a key of another type yields WRONGTYPE (nil = all slots);
	// empty non-nil = none (overwriting / type agnostic).
	wtSlots []int
	mk      func(t *rapid.T, k []string) []string
}

var tElems = []string{"x", "y", "z", "1", "2", "10"}
var tFields = []string{"f", "g", "h"}
var tMembers = []string{"m", "n", "1", "2"}
var tSmallInts = []string{"0", "1", "-1", "2", "-2", "3", "5", "-5"}

func el(t *rapid.T) string  { return pick(t, "el", tElems...) }
func fld(t *rapid.T) string { return pick(t, "fld", tFields...) }
func mem(t *rapid.T) string { return pick(t, "mem", tMembers...) }
func sint(t *rapid.T) string {
	return pick(t, "sint", tSmallInts...)
}

var noWT = []int{}

var cmdTable = []tmpl{
	// strings
	{"GET", model.TString, 1, false, nil, func(t *rapid.T, k []string) []string { return []string{"GET", k[0]} }},
	{"STRLEN", model.TString, 1, false, nil, func(t *rapid.T, k []string) []string { return []string{"STRLEN", k[0]} }},
	{"GETRANGE", model.TString, 1, false, nil, func(t *rapid.T, k []string) []string { return []string{"GETRANGE", k[0], sint(t), sint(t)} }},
	{"SUBSTR", model.TString, 1, false, nil, func(t *rapid.T, k []string) []string { return []string{"SUBSTR", k[0], sint(t), sint(t)} }},
	{"LCS", model.TString, 2, false, noWT, func(t *rapid.T, k []string) []string { return []string{"LCS", k[0], k[1]} }},
	{"MGET", model.TString, 2, false, noWT, func(t *rapid.T, k []string) []string { return []string{"MGET", k[0], k[1]} }},
	{"SET", model.TString, 1, true, noWT, func(t *rapid.T, k []string) []string { return []string{"SET", k[0], el(t)} }},
	{"SETGET", model.TString, 1, true, nil, func(t *rapid.T, k []string) []string { return []string{"SET", k[0], el(t), "GET"} }},
	{"SETNX", model.TString, 1, true, noWT, func(t *rapid.T, k []string) []string { return []string{"SETNX", k[0], el(t)} }},
	{"SETEX", model.TString, 1, true, noWT, func(t *rapid.T, k []string) []string { return []string{"SETEX", k[0], "100000", el(t)} }},
	{"PSETEX", model.TString, 1, true, noWT, func(t *rapid.T, k []string) []string { return []string{"PSETEX", k[0], "100000000", el(t)} }},
	{"GETSET", model.TString, 1, true, nil, func(t *rapid.T, k []string) []string { return []string{"GETSET", k[0], el(t)} }},
	{"GETDEL", model.TString, 1, true, nil, func(t *rapid.T, k []string) []string { return []string{"GETDEL", k[0]} }},
	{"GETEX", model.TString, 1, true, nil, func(t *rapid.T, k []string) []string {
		return append([]string{"GETEX", k[0]}, pick(t, "gx", []string{}, []string{"PERSIST"}, []string{"PXAT", "4102444800000"}, []string{"EX", "100000"})...)
	}},
	{"MSET", model.TString, 2, true, noWT, func(t *rapid.T, k []string) []string { return []string{"MSET", k[0], el(t), k[1], el(t)} }},
	{"MSETNX", model.TString, 2, true, noWT, func(t *rapid.T, k []string) []string { return []string{"MSETNX", k[0], el(t), k[1], el(t)} }},
	{"APPEND", model.TString, 1, true, nil, func(t *rapid.T, k []string) []string { return []string{"APPEND", k[0], el(t)} }},
	{"SETRANGE", model.TString, 1, true, nil, func(t *rapid.T, k []string) []string {
		return []string{"SETRANGE", k[0], pick(t, "o", "0", "1", "3", "-1"), pick(t, "sv", "ab", "", "q")}
	}},
	{"INCR", model.TString, 1, true, nil, func(t *rapid.T, k []string) []string { return []string{pick(t, "i", "INCR", "DECR"), k[0]} }},
	{"INCRBY", model.TString, 1, true, nil, func(t *rapid.T, k []string) []string {
		return []string{pick(t, "i", "INCRBY", "DECRBY"), k[0], pick(t, "d", "1", "-3", "9223372036854775807", "-9223372036854775807")}
	}},
	{"INCRBYFLOAT", model.TString, 1, true, nil, func(t *rapid.T, k []string) []string {
		return []string{"INCRBYFLOAT", k[0], pick(t, "f", "0.5", "-1.5", "2")}
	}},
	{"SETBIT", model.TString, 1, true, nil, func(t *rapid.T, k []string) []string {
		return []string{"SETBIT", k[0], pick(t, "o", "0", "7", "9", "100"), pick(t, "b", "0", "1")}
	}},
	{"GETBIT", model.TString, 1, false, nil, func(t *rapid.T, k []string) []string {
		return []string{"GETBIT", k[0], pick(t, "o", "0", "7", "9", "100")}
	}},
	{"BITCOUNT", model.TString, 1, false, nil, func(t *rapid.T, k []string) []string { return []string{"BITCOUNT", k[0]} }},
	{"BITPOS", model.TString, 1, false, nil, func(t *rapid.T, k []string) []string { return []string{"BITPOS", k[0], pick(t, "b", "0", "1")} }},
	{"BITFIELDGET", model.TString, 1, false, nil, func(t *rapid.T, k []string) []string { return []string{"BITFIELD", k[0], "GET", "u4", "0"} }},
	{"BITFIELD_RO", model.TString, 1, false, nil, func(t *rapid.T, k []string) []string { return []string{"BITFIELD_RO", k[0], "GET", "i5", "3"} }},
	{"BITFIELDSET", model.TString, 1, true, nil, func(t *rapid.T, k []string) []string {
		return []string{"BITFIELD", k[0], pick(t, "op", "SET", "INCRBY"), "u4", pick(t, "o", "0", "3", "12"), pick(t, "v", "1", "7", "15")}
	}},
	{"BITOP", model.TString, 3, true, []int{1, 2}, func(t *rapid.T, k []string) []string {
		return []string{"BITOP", pick(t, "op", "AND", "OR", "XOR"), k[0], k[1], k[2]}
	}},
	{"BITOPNOT", model.TString, 2, true, []int{1}, func(t *rapid.T, k []string) []string { return []string{"BITOP", "NOT", k[0], k[1]} }},
	// lists
	{"LPUSH", model.TList, 1, true, nil, func(t *rapid.T, k []string) []string {
		return []string{pick(t, "p", "LPUSH", "RPUSH", "LPUSHX", "RPUSHX"), k[0], el(t), el(t)}
	}},
	{"LPOP", model.TList, 1, true, nil, func(t *rapid.T, k []string) []string {
		a := []string{pick(t, "p", "LPOP", "RPOP"), k[0]}
		if rapid.Bool().Draw(t, "c") {
			a = append(a, pick(t, "n", "1", "2", "10", "-1"))
		}
		return a
	}},
	{"LLEN", model.TList, 1, false, nil, func(t *rapid.T, k []string) []string { return []string{"LLEN", k[0]} }},
	{"LINDEX", model.TList, 1, false, nil, func(t *rapid.T, k []string) []string { return []string{"LINDEX", k[0], sint(t)} }},
	{"LRANGE", model.TList, 1, false, nil, func(t *rapid.T, k []string) []string { return []string{"LRANGE", k[0], sint(t), sint(t)} }},
	{"LPOS", model.TList, 1, false, nil, func(t *rapid.T, k []string) []string { return []string{"LPOS", k[0], el(t)} }},
	{"LSET", model.TList, 1, true, nil, func(t *rapid.T, k []string) []string { return []string{"LSET", k[0], sint(t), el(t)} }},
	{"LINSERT", model.TList, 1, true, nil, func(t *rapid.T, k []string) []string {
		return []string{"LINSERT", k[0], pick(t, "w", "BEFORE", "AFTER"), el(t), el(t)}
	}},
	{"LREM", model.TList, 1, true, nil, func(t *rapid.T, k []string) []string { return []string{"LREM", k[0], sint(t), el(t)} }},
	{"LTRIM", model.TList, 1, true, nil, func(t *rapid.T, k []string) []string { return []string{"LTRIM", k[0], sint(t), sint(t)} }},
	{"LMOVE", model.TList, 2, true, nil, func(t *rapid.T, k []string) []string {
		return []string{"LMOVE", k[0], k[1], pick(t, "a", "LEFT", "RIGHT"), pick(t, "b", "LEFT", "RIGHT")}
	}},
	{"RPOPLPUSH", model.TList, 2, true, nil, func(t *rapid.T, k []string) []string { return []string{"RPOPLPUSH", k[0], k[1]} }},
	{"LMPOP", model.TList, 2, true, nil, func(t *rapid.T, k []string) []string {
		return []string{"LMPOP", "2", k[0], k[1], pick(t, "a", "LEFT", "RIGHT"), "COUNT", pick(t, "n", "1", "2", "10")}
	}},
	// hashes
	{"HSET", model.THash, 1, true, nil, func(t *rapid.T, k []string) []string {
		return []string{pick(t, "h", "HSET", "HMSET"), k[0], fld(t), el(t)}
	}},
	{"HSETNX", model.THash, 1, true, nil, func(t *rapid.T, k []string) []string { return []string{"HSETNX", k[0], fld(t), el(t)} }},
	{"HGET", model.THash, 1, false, nil, func(t *rapid.T, k []string) []string { return []string{"HGET", k[0], fld(t)} }},
	{"HMGET", model.THash, 1, false, nil, func(t *rapid.T, k []string) []string { return []string{"HMGET", k[0], fld(t), fld(t)} }},
	{"HGETALL", model.THash, 1, false, nil, func(t *rapid.T, k []string) []string {
		return []string{pick(t, "h", "HGETALL", "HKEYS", "HVALS"), k[0]}
	}},
	{"HLEN", model.THash, 1, false, nil, func(t *rapid.T, k []string) []string { return []string{"HLEN", k[0]} }},
	{"HEXISTS", model.THash, 1, false, nil, func(t *rapid.T, k []string) []string { return []string{"HEXISTS", k[0], fld(t)} }},
	{"HSTRLEN", model.THash, 1, false, nil, func(t *rapid.T, k []string) []string { return []string{"HSTRLEN", k[0], fld(t)} }},
	{"HDEL", model.THash, 1, true, nil, func(t *rapid.T, k []string) []string { return []string{"HDEL", k[0], fld(t), fld(t)} }},
	{"HINCRBY", model.THash, 1, true, nil, func(t *rapid.T, k []string) []string {
		return []string{"HINCRBY", k[0], fld(t), pick(t, "d", "1", "-3", "9223372036854775807")}
	}},
	{"HINCRBYFLOAT", model.THash, 1, true, nil, func(t *rapid.T, k []string) []string {
		return []string{"HINCRBYFLOAT", k[0], fld(t), pick(t, "f", "0.5", "-1.5")}
	}},
	{"HRANDFIELD", model.THash, 1, false, nil, func(t *rapid.T, k []string) []string {
		return append([]string{"HRANDFIELD", k[0]}, pick(t, "c", []string{}, []string{"2"}, []string{"-3", "WITHVALUES"})...)
	}},
	// sets
	{"SADD", model.TSet, 1, true, nil, func(t *rapid.T, k []string) []string { return []string{"SADD", k[0], mem(t), mem(t)} }},
	{"SREM", model.TSet, 1, true, nil, func(t *rapid.T, k []string) []string { return []string{"SREM", k[0], mem(t), mem(t)} }},
	{"SCARD", model.TSet, 1, false, nil, func(t *rapid.T, k []string) []string { return []string{"SCARD", k[0]} }},
	{"SISMEMBER", model.TSet, 1, false, nil, func(t *rapid.T, k []string) []string { return []string{"SISMEMBER", k[0], mem(t)} }},
	{"SMISMEMBER", model.TSet, 1, false, nil, func(t *rapid.T, k []string) []string { return []string{"SMISMEMBER", k[0], mem(t), mem(t)} }},
	{"SMEMBERS", model.TSet, 1, false, nil, func(t *rapid.T, k []string) []string { return []string{"SMEMBERS", k[0]} }},
	{"SRANDMEMBER", model.TSet, 1, false, nil, func(t *rapid.T, k []string) []string {
		return append([]string{"SRANDMEMBER", k[0]}, pick(t, "c", []string{}, []string{"2"}, []string{"-3"})...)
	}},
	{"SMOVE", model.TSet, 2, true, nil, func(t *rapid.T, k []string) []string { return []string{"SMOVE", k[0], k[1], mem(t)} }},
	{"SINTER", model.TSet, 2, false, nil, func(t *rapid.T, k []string) []string {
		return []string{pick(t, "a", "SINTER", "SUNION", "SDIFF"), k[0], k[1]}
	}},
	{"SINTERCARD", model.TSet, 2, false, nil, func(t *rapid.T, k []string) []string { return []string{"SINTERCARD", "2", k[0], k[1]} }},
	{"SINTERSTORE", model.TSet, 3, true, []int{1, 2}, func(t *rapid.T, k []string) []string {
		return []string{pick(t, "a", "SINTERSTORE", "SUNIONSTORE", "SDIFFSTORE"), k[0], k[1], k[2]}
	}},
	// keyspace (type agnostic)
	{"DEL", model.TNone, 2, true, noWT, func(t *rapid.T, k []string) []string { return []string{pick(t, "d", "DEL", "UNLINK"), k[0], k[1]} }},
	{"EXISTS", model.TNone, 2, false, noWT, func(t *rapid.T, k []string) []string {
		return []string{pick(t, "e", "EXISTS", "TOUCH"), k[0], k[1], k[0]}
	}},
	{"TYPE", model.TNone, 1, false, noWT, func(t *rapid.T, k []string) []string { return []string{"TYPE", k[0]} }},
	{"RENAME", model.TNone, 2, true, noWT, func(t *rapid.T, k []string) []string { return []string{pick(t, "r", "RENAME", "RENAMENX"), k[0], k[1]} }},
	{"COPY", model.TNone, 2, true, noWT, func(t *rapid.T, k []string) []string {
		a := []string{"COPY", k[0], k[1]}
		if rapid.Bool().Draw(t, "rep") {
			a = append(a, "REPLACE")
		}
		return a
	}},
	{"EXPIRE", model.TNone, 1, true, noWT, func(t *rapid.T, k []string) []string {
		a := pick(t, "x", []string{"EXPIRE", k[0], "100000"}, []string{"PEXPIRE", k[0], "100000000"}, []string{"EXPIREAT", k[0], "4102444800"}, []string{"PEXPIREAT", k[0], "4102444800123"})
		if rapid.IntRange(0, 2).Draw(t, "o") == 0 {
			a = append(append([]string{}, a...), pick(t, "opt", "NX", "XX", "GT", "LT"))
		}
		return a
	}},
	{"PERSIST", model.TNone, 1, true, noWT, func(t *rapid.T, k []string) []string { return []string{"PERSIST", k[0]} }},
	{"TTL", model.TNone, 1, false, noWT, func(t *rapid.T, k []string) []string {
		return []string{pick(t, "t", "TTL", "PTTL", "EXPIRETIME", "PEXPIRETIME"), k[0]}
	}},
	{"SORT", model.TList, 1, false, nil, func(t *rapid.T, k []string) []string {
		a := []string{"SORT", k[0]}
		if rapid.Bool().Draw(t, "alpha") {
			a = append(a, "ALPHA")
		}
		if rapid.Bool().Draw(t, "desc") {
			a = append(a, "DESC")
		}
		return a
	}},
}

var cmdIndex = func() map[string]int {
	m := map[string]int{}
	for i, c := range cmdTable {
		m[c.name] = i
	}
	return m
}()

// typedKey returns the name of the pre-populated key of a type ("" type => missing key).
func typedKey(ty model.Type, variant int) string {
	base := map[model.Type]string{model.TNone: "kmiss", model.TString: "ks", model.TList: "kl", model.THash: "kh", model.TSet: "kz"}[ty]
	if variant > 0 {
		return base + strconv.Itoa(variant)
	}
	return base
}

// setupTyped creates ks/kl/kh/kz (+ "1" variants, the variants carrying a far-future deadline).
func setupTyped() [][]string {
	return [][]string{
		{"SET", "ks", "10"}, {"RPUSH", "kl", "3", "1", "2"}, {"HSET", "kh", "f", "1", "g", "x"}, {"SADD", "kz", "1", "2", "m"},
		{"SET", "ks1", "abc"}, {"RPUSH", "kl1", "x", "y"}, {"HSET", "kh1", "f", "5"}, {"SADD", "kz1", "m", "n"},
		{"PEXPIREAT", "ks1", "4102444800000"}, {"PEXPIREAT", "kl1", "4102444800001"}, {"PEXPIREAT", "kh1", "4102444800002"}, {"PEXPIREAT", "kz1", "4102444800003"},
	}
}

var allTypes = []model.Type{model.TString, model.TList, model.THash, model.TSet}
