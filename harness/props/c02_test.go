package props

import (
	"strconv"
	"testing"

	"pgregory.net/rapid"

	"verifharness/kit"
	"verifharness/model"
)

// C02 — string and counter commands behave as Redis for every sequence.

var c02Keys = []string{"a", "b", "c", "d"}

var c02Vals = []string{"", "0", "-1", "1", "10", "9223372036854775807", "-9223372036854775808", "9223372036854775806",
	"-9223372036854775807", "12abc", "1.5", " 1", "abc", "hello world", "0.25", "-2.5", "3"}

func c02Key(t *rapid.T) string { return pick(t, "key", c02Keys...) }

func c02Val(t *rapid.T) string {
	if rapid.IntRange(0, 5).Draw(t, "rnd") == 0 {
		return string(rapid.SliceOfN(rapid.Byte(), 1, 12).Draw(t, "bytes"))
	}
	return pick(t, "val", c02Vals...)
}

var c02Incs = []string{"0", "1", "-1", "2", "5", "-5", "100", "9223372036854775807", "-9223372036854775808", "9223372036854775806",
	"-9223372036854775807", "abc", "1.5", ""}

var c02Offs = []string{"0", "1", "-1", "2", "-2", "3", "-3", "4", "-4", "5", "-5", "6", "-6", "10", "-10", "11", "-11", "12", "-12", "13", "-13", "20", "-20",
	"2147483647", "-2147483648", "9223372036854775807", "-9223372036854775807"}

// far-future absolute deadlines (2100-01-01 ...): no race with the clock is possible
var c02AbsMs = []string{"4102444800000", "4102444800123", "4099999999999"}
var c02AbsS = []string{"4102444800", "4099999999"}
var c02RelS = []string{"1000", "100000", "86400"}
var c02RelMs = []string{"1000000", "123456789"}

// expireOpt draws one of EX/PX/EXAT/PXAT (+value), including invalid values.
func c02ExpireOpt(t *rapid.T, allowBad bool) []string {
	u := pick(t, "unit", "EX", "PX", "EXAT", "PXAT")
	var v string
	switch u {
	case "EX":
		v = pick(t, "v", c02RelS...)
	case "PX":
		v = pick(t, "v", c02RelMs...)
	case "EXAT":
		v = pick(t, "v", c02AbsS...)
	default:
		v = pick(t, "v", c02AbsMs...)
	}
	if allowBad && rapid.IntRange(0, 9).Draw(t, "bad") == 0 {
		v = pick(t, "badv", "0", "-1", "abc", "")
	}
	return []string{randCase(t, u), v}
}

func c02Step(t *rapid.T) kit.Argv {
	k := c02Key(t)
	cn := func(s string) string { return randCase(t, s) }
	switch weighted(t, "cmd", []int{14, 3, 3, 6, 3, 3, 4, 4, 4, 3, 5, 3, 5, 5, 8, 4, 3, 3, 2, 1, 1}) {
	case 0: // SET with options in random order
		a := []string{cn("SET"), k, c02Val(t)}
		var opts [][]string
		if rapid.IntRange(0, 2).Draw(t, "cond") == 0 {
			opts = append(opts, []string{cn(pick(t, "nxxx", "NX", "XX"))})
		}
		if rapid.IntRange(0, 3).Draw(t, "get") == 0 {
			opts = append(opts, []string{cn("GET")})
		}
		switch rapid.IntRange(0, 3).Draw(t, "exp") {
		case 0:
			opts = append(opts, c02ExpireOpt(t, true))
		case 1:
			opts = append(opts, []string{cn("KEEPTTL")})
		}
		for _, i := range rapid.Permutation(idx(len(opts))).Draw(t, "order") {
			a = append(a, opts[i]...)
		}
		return kit.A(a...)
	case 1:
		return kit.A(cn("SETNX"), k, c02Val(t))
	case 2:
		if rapid.Bool().Draw(t, "p") {
			return kit.A(cn("PSETEX"), k, pick(t, "ms", "1000000", "123456789", "0", "-5"), c02Val(t))
		}
		return kit.A(cn("SETEX"), k, pick(t, "s", "1000", "86400", "0", "-5"), c02Val(t))
	case 3:
		return kit.A(cn("GET"), k)
	case 4:
		return kit.A(cn("GETSET"), k, c02Val(t))
	case 5:
		return kit.A(cn("GETDEL"), k)
	case 6:
		a := []string{cn("GETEX"), k}
		switch rapid.IntRange(0, 2).Draw(t, "opt") {
		case 0:
			a = append(a, c02ExpireOpt(t, true)...)
		case 1:
			a = append(a, cn("PERSIST"))
		}
		return kit.A(a...)
	case 7:
		a := []string{cn("MGET")}
		for i := rapid.IntRange(1, 4).Draw(t, "n"); i > 0; i-- {
			a = append(a, c02Key(t))
		}
		return kit.A(a...)
	case 8:
		a := []string{cn(pick(t, "m", "MSET", "MSETNX", "MSETNX"))}
		for i := rapid.IntRange(1, 3).Draw(t, "n"); i > 0; i-- {
			a = append(a, pick(t, "mk", "a", "b", "c", "d", "e", "f"), c02Val(t))
		}
		return kit.A(a...)
	case 9:
		return kit.A(cn("APPEND"), k, c02Val(t))
	case 10:
		return kit.A(cn("STRLEN"), k)
	case 11:
		return kit.A(cn(pick(t, "gr", "GETRANGE", "SUBSTR")), k, pick(t, "s", c02Offs...), pick(t, "e", c02Offs...))
	case 12:
		return kit.A(cn("SETRANGE"), k, pick(t, "off", "0", "1", "2", "3", "5", "11", "12", "13", "20", "-1", "-5", "1000", "536870912", "9223372036854775807"), pick(t, "sv", "", "x", "xy", "hello", "\x00\xff"))
	case 13:
		return kit.A(cn(pick(t, "i", "INCR", "DECR")), k)
	case 14:
		return kit.A(cn(pick(t, "ib", "INCRBY", "DECRBY")), k, pick(t, "inc", c02Incs...))
	case 15:
		return kit.A(cn("INCRBYFLOAT"), k, pick(t, "f", "1", "0.5", "-0.25", "1.5", "-3", "100", "abc", "nan", "inf", "", "0"))
	case 16:
		a := []string{cn("LCS"), k, c02Key(t)}
		var opts [][]string
		switch rapid.IntRange(0, 2).Draw(t, "mode") {
		case 0:
			opts = append(opts, []string{cn("LEN")})
		case 1:
			opts = append(opts, []string{cn("IDX")})
			if rapid.Bool().Draw(t, "mml") {
				opts = append(opts, []string{cn("MINMATCHLEN"), pick(t, "ml", "0", "1", "2", "3")})
			}
			if rapid.Bool().Draw(t, "wml") {
				opts = append(opts, []string{cn("WITHMATCHLEN")})
			}
		}
		for _, i := range rapid.Permutation(idx(len(opts))).Draw(t, "order") {
			a = append(a, opts[i]...)
		}
		return kit.A(a...)
	case 17: // similar strings for LCS
		base := pick(t, "base", "ohmytext", "mynewtext", "abcabcab", "xaxbxcxd")
		return kit.A("SET", k, base+pick(t, "sfx", "", "a", "bc"))
	case 18: // make the key another type / give it a deadline
		switch rapid.IntRange(0, 4).Draw(t, "what") {
		case 0:
			return kit.A("RPUSH", k, "x")
		case 1:
			return kit.A("HSET", k, "f", "v")
		case 2:
			return kit.A("SADD", k, "m")
		case 3:
			return kit.A("PEXPIREAT", k, pick(t, "abs", c02AbsMs...))
		default:
			return kit.A("PERSIST", k)
		}
	case 19:
		return goneStep(t, k)
	default:
		return kit.A(cn("SET"), k) // wrong arity
	}
}

func idx(n int) []int {
	out := make([]int, n)
	for i := range out {
		out[i] = i
	}
	return out
}

var c02ArithInts = []string{"9223372036854775807", "-9223372036854775808", "9223372036854775806", "-9223372036854775807", "0", "1", "-1", "4611686018427387904", "-4611686018427387904"}

// c02Arith: a counter set to a boundary value and moved by a boundary amount: the overflow test of every
// counter command on both operands at their extremes.
func c02Arith(t *rapid.T) []kit.Argv {
	k := c02Key(t)
	out := []kit.Argv{kit.A("SET", k, pick(t, "start", c02ArithInts...))}
	for n := rapid.IntRange(1, 3).Draw(t, "ariths"); n > 0; n-- {
		out = append(out, kit.A(pick(t, "arith",
			[]string{"INCRBY", k, pick(t, "by", c02ArithInts...)}, []string{"DECRBY", k, pick(t, "by2", c02ArithInts...)}, []string{"INCR", k}, []string{"DECR", k},
			[]string{"INCRBYFLOAT", k, pick(t, "byf", "1", "-1", "0.5", "1e18", "-1e18", "9223372036854775807", "1e-5", "3.0e3")}, []string{"APPEND", k, "0"}, []string{"GETRANGE", k, "0", "-1"},
		)...))
	}
	return out
}

// c02Empty: a key that holds the empty string - reached in each of the ways a client can reach it - and then
// commands that append, overwrite, cut and read zero bytes. The empty string is a value like any other: the key
// exists, is a string, has length 0.
func c02Empty(t *rapid.T) []kit.Argv {
	k := c02Key(t)
	var out []kit.Argv
	switch rapid.IntRange(0, 5).Draw(t, "how") {
	case 0:
		out = append(out, kit.A("SET", k, ""))
	case 1:
		out = append(out, kit.A("DEL", k), kit.A("APPEND", k, ""))
	case 2:
		out = append(out, kit.A("MSET", k, ""))
	case 3:
		out = append(out, kit.A("DEL", k), kit.A("SETRANGE", k, "0", ""))
	case 4:
		out = append(out, kit.A("SET", k, "x"), kit.A("GETSET", k, ""))
	default:
		out = append(out, kit.A("SETEX", k, "100000", ""))
	}
	for n := rapid.IntRange(2, 5).Draw(t, "n"); n > 0; n-- {
		out = append(out, kit.A(pick(t, "emptyop",
			[]string{"APPEND", k, ""}, []string{"APPEND", k, ""}, []string{"SETRANGE", k, "0", ""}, []string{"GET", k}, []string{"STRLEN", k}, []string{"GETRANGE", k, "0", "-1"}, []string{"MGET", k, k},
			[]string{"EXISTS", k}, []string{"TYPE", k}, []string{"SET", k, "", "KEEPTTL"}, []string{"SET", k, "", "XX", "GET"}, []string{"GETEX", k, "PERSIST"}, []string{"SUBSTR", k, "0", "0"},
			[]string{"INCR", k}, []string{"INCRBYFLOAT", k, "1"}, []string{"LCS", k, k}, []string{"SETNX", k, "v"}, []string{"MSETNX", k, "v"}, []string{"GETDEL", k}, []string{"APPEND", k, "tail"},
			[]string{"SETRANGE", k, "2", "zz"}, []string{"RENAME", k, k}, []string{"COPY", k, "d", "REPLACE"}, []string{"GET", "d"},
		)...))
	}
	return out
}

func c02Gen(t *rapid.T) SeqCase {
	var steps []kit.Argv
	n := rapid.IntRange(8, 50).Draw(t, "steps")
	for i := 0; i < n; i++ {
		if rapid.IntRange(0, 19).Draw(t, "empty") == 0 {
			steps = append(steps, c02Empty(t)...)
			continue
		}
		if rapid.IntRange(0, 14).Draw(t, "arith") == 0 {
			steps = append(steps, c02Arith(t)...)
			continue
		}
		if rapid.IntRange(0, 11).Draw(t, "gone") == 0 {
			steps = append(steps, afterGone(t, c02Keys, c02Step)...)
			continue
		}
		if rapid.IntRange(0, 19).Draw(t, "retype") == 0 {
			steps = append(steps, afterRetype(t, c02Keys, c02Step)...)
			continue
		}
		steps = append(steps, c02Step(t))
	}
	return SeqCase{Steps: steps}
}

func c02Observe(argv []string, before *model.DB, exp model.Exp, st *kit.Stats, flags map[string]int) {
	name := upper(argv[0])
	st.Class("cmd:" + name)
	if len(argv) < 2 {
		return
	}
	o := before.Keys[argv[1]]
	switch {
	case o == nil:
		st.Class("prior:missing")
	case o.HasTTL:
		st.Class("prior:" + o.T.String() + "+ttl")
	default:
		st.Class("prior:" + o.T.String())
	}
	isErr := exp.IsErr()
	switch name {
	case "SET", "SETNX", "MSETNX":
		if exp.Kind == model.EVal && (exp.V.K == kit.KNil || (exp.V.K == kit.KInt && exp.V.I == 0)) {
			flags["refused"]++
			st.Class("conditional-write-refused")
		}
	case "INCR", "DECR", "INCRBY", "DECRBY", "INCRBYFLOAT":
		if isErr {
			flags["ctrerr"]++
			st.Class("counter-error")
		}
	case "GETRANGE", "SUBSTR", "SETRANGE":
		for _, a := range argv[2:] {
			if v, err := strconv.ParseInt(a, 10, 64); err == nil && o != nil && o.T == model.TString && (v < 0 || v >= int64(len(o.Str))) {
				flags["range"]++
				st.Class("range-negative-or-out-of-range")
				break
			}
		}
	}
	if !isErr {
		switch name {
		case "GET", "MGET", "STRLEN", "GETRANGE", "SUBSTR", "LCS":
		default:
			flags["writes"]++
			st.Class("state-changing")
		}
	}
}

func c02Run(c SeqCase, st *kit.Stats) error {
	flags := map[string]int{}
	err := runSeq(c, st, seqHooks{observe: c02Observe, skip: c02Skip}, flags)
	if err == nil && flags["writes"] >= 8 && (flags["refused"] > 0 || flags["ctrerr"] > 0 || flags["range"] > 0) {
		st.NonTrivial(c.Canon(), c.Sample())
	}
	return err
}

func c02Skip(argv []string, db *model.DB) string { return "" }

func TestC02(t *testing.T) {
	kit.Check(t, kit.Prop[SeqCase]{ID: "C02", Gen: c02Gen, Run: c02Run})
}
