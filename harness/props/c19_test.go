//go:build verif

package props

import (
	"fmt"
	"io"
	"os"
	"path/filepath"
	"sort"
	"strconv"
	"strings"
	"sync"
	"testing"
	"time"

	redisemu "github.com/jimsnab/go-redisemu"
	"pgregory.net/rapid"

	"verifharness/kit"
)

// C19 — persistence: restart restores the acknowledged state; saves are crash-atomic.
//
// A (metamorphic, model-free): dump of all 16 databases before a clean shutdown == dump after a
//   restart on the same persist path.
// B (fault enumeration): while the shutdown snapshot is written, the `verif` hook copies the snapshot
//   directory at every stage (file created, header written, after each key, before close, and once
//   after the save returned); every copy is loaded by a fresh emulator and every database must equal
//   the previously saved state or the state at the save.

type C19Case struct {
	Steps []kit.Argv `json:"steps"` // ["@RESTART"] marks a clean shutdown + restart
}

var c19Dbs = []string{"0", "1", "2", "9"}

func c19Cmd(t *rapid.T) []string {
	k := pick(t, "k", "s1", "s2", "l1", "l2", "h1", "z1", "x", "")
	v := pick(t, "v", "a", "b", "10", "", "\x00\xff\r\n", "longer value with spaces")
	switch weighted(t, "kind", []int{10, 6, 3, 2}) {
	case 0: // creating / replacing
		return pick(t, "create",
			[]string{"SET", pick(t, "sk", "s1", "s2", "x", ""), v}, []string{"HSET", "h1", "", v, v, ""}, []string{"SADD", "z1", ""}, []string{"RPUSH", "l2", "", v}, []string{"RPUSH", pick(t, "lk", "l1", "l2", "x"), v, "e2", "e3"}, []string{"LPUSH", "l1", v},
			[]string{"HSET", pick(t, "hk", "h1", "x"), "f", v, "g", "2"}, []string{"SADD", pick(t, "zk", "z1", "x"), v, "m2"}, []string{"MSET", "s1", v, "s2", "7"},
			[]string{"SETEX", "s2", "100000", v}, []string{"SET", "s1", v, "PXAT", "4102444800123"}, []string{"COPY", k, "x", "REPLACE"}, []string{"RENAME", k, "x"},
			[]string{"SUNIONSTORE", "z1", "z1", "x"}, []string{"SORT", "l1", "ALPHA", "STORE", "l2"}, []string{"BITOP", "OR", "s2", "s1", "s2"}, []string{"INCR", "x"},
		)
	case 1: // in place: the only change since the last save may be one of these
		return pick(t, "inplace",
			[]string{"LSET", "l1", "0", v}, []string{"LINSERT", "l1", "BEFORE", "e2", v}, []string{"LREM", "l1", "1", "e2"}, []string{"LTRIM", "l1", "0", "1"}, []string{"LPOP", "l1"}, []string{"RPOP", "l2"},
			[]string{"LMOVE", "l1", "l2", "LEFT", "RIGHT"}, []string{"SREM", "z1", "m2"}, []string{"SMOVE", "z1", "x", "m2"}, []string{"HDEL", "h1", "g"}, []string{"HINCRBY", "h1", "g", "5"},
			[]string{"HINCRBYFLOAT", "h1", "n", "0.5"}, []string{"HSETNX", "h1", "nx", v}, []string{"APPEND", "s1", v}, []string{"SETRANGE", "s1", "2", "zz"}, []string{"SETBIT", "s1", "9", "1"},
			[]string{"PEXPIREAT", k, "4102444800000"}, []string{"EXPIRE", k, "100000"}, []string{"PERSIST", k}, []string{"GETEX", "s1", "PXAT", "4102444800999"}, []string{"GETEX", "s1", "PERSIST"},
			[]string{"INCRBYFLOAT", "s2", "1.5"}, []string{"BITFIELD", "s1", "SET", "u8", "0", "200"},
		)
	case 2: // deleting
		return pick(t, "delete",
			[]string{"DEL", k}, []string{"UNLINK", k}, []string{"GETDEL", "s1"}, []string{"LPOP", "l1", "10"}, []string{"HDEL", "h1", "f", "g", "n", "nx"}, []string{"SREM", "z1", "a", "b", "10", "", "m2", "longer value with spaces", "\x00\xff\r\n"},
			[]string{"FLUSHDB"}, []string{"FLUSHALL"}, []string{"PEXPIREAT", k, "1000000000000"}, []string{"RENAME", k, "gone"}, []string{"DEL", "gone"},
			// deletion through a deadline that has passed already
			[]string{"EXPIRE", k, "-1"}, []string{"PEXPIRE", k, "0"}, []string{"EXPIREAT", k, "1"}, []string{"PEXPIREAT", k, "1000"}, []string{"GETEX", pick(t, "gk", "s1", "s2", "x"), "PXAT", "1000"},
			[]string{"GETEX", pick(t, "gk2", "s1", "s2"), "EXAT", "1"}, []string{"SET", pick(t, "sk2", "s1", "s2"), v, "PXAT", "1000"}, []string{"EXPIRE", k, "-100", "LT"},
		)
	}
	return []string{"SELECT", pick(t, "db", c19Dbs...)}
}

func c19Gen(t *rapid.T) C19Case {
	var c C19Case
	restarts := rapid.IntRange(2, 6).Draw(t, "restarts")
	for r := 0; r < restarts; r++ {
		// later rounds are often a single command: then it alone decides whether anything is saved
		n := pick(t, "steps", 0, 1, 1, 1, 2, 3, 5, 8, 10)
		if r == 0 {
			n = rapid.IntRange(4, 14).Draw(t, "steps0")
		}
		for i := 0; i < n; i++ {
			if rapid.IntRange(0, 5).Draw(t, "intx") == 0 {
				// the same change made by a transaction
				c.Steps = append(c.Steps, kit.A("MULTI"), kit.A(c19Cmd(t)...), kit.A("EXEC"))
				continue
			}
			c.Steps = append(c.Steps, kit.A(c19Cmd(t)...))
		}
		c.Steps = append(c.Steps, kit.A("@RESTART"))
	}
	return c
}

type allDump [16]dbDump

func dumpAll(c *kit.Conn) (allDump, error) {
	var d allDump
	for i := 0; i < 16; i++ {
		if v, err := c.Do("SELECT", strconv.Itoa(i)); err != nil || v.IsErr() {
			return d, fmt.Errorf("SELECT %d: %v %v", i, v, err)
		}
		x, err := dumpEmu(c)
		if err != nil {
			return d, fmt.Errorf("db %d: %v", i, err)
		}
		d[i] = x
	}
	return d, nil
}

func dbEqual(a, b dbDump) bool {
	if a.DBSize != b.DBSize || len(a.Keys) != len(b.Keys) {
		return false
	}
	for k, v := range a.Keys {
		if w, ok := b.Keys[k]; !ok || v != w {
			return false
		}
	}
	return true
}

func dbText(d dbDump) string {
	var ks []string
	for k, v := range d.Keys {
		ks = append(ks, fmt.Sprintf("%s=%s:%q@%d", k, v.Type, clip(v.Value), v.PExp))
	}
	sort.Strings(ks)
	return "{" + strings.Join(ks, " ") + "}"
}

func copyDir(src, dst string) error {
	os.MkdirAll(dst, 0o755)
	ents, err := os.ReadDir(src)
	if err != nil {
		return err
	}
	for _, e := range ents {
		if e.IsDir() {
			continue
		}
		in, err := os.Open(filepath.Join(src, e.Name()))
		if err != nil {
			return err
		}
		out, err := os.Create(filepath.Join(dst, e.Name()))
		if err != nil {
			in.Close()
			return err
		}
		io.Copy(out, in)
		in.Close()
		out.Close()
	}
	return nil
}

func c19Run(c C19Case, st *kit.Stats) error {
	root, err := os.MkdirTemp(os.Getenv("VERIF_RUN"), "c19-")
	if err != nil {
		return fmt.Errorf("harness: %v", err)
	}
	defer os.RemoveAll(root)
	snapDir := filepath.Join(root, "snap")
	os.MkdirAll(snapDir, 0o755)
	persist := filepath.Join(snapDir, "data")

	var mu sync.Mutex
	closing := false
	tainted := false
	var images []string
	var stages []string
	redisemu.SetVerifHook(func(point string, id int64, n int) {
		if !strings.HasPrefix(point, "save-") {
			return
		}
		mu.Lock()
		defer mu.Unlock()
		if !closing {
			tainted = true // the periodic saver ran in the middle of the segment
			return
		}
		img := filepath.Join(root, fmt.Sprintf("img-%d", len(images)))
		if copyDir(snapDir, img) == nil {
			images = append(images, img)
			stages = append(stages, fmt.Sprintf("%s/%d", point, n))
		}
	})
	defer redisemu.SetVerifHook(nil)

	emu := kit.StartEmu(persist)
	conn := emu.Dial()
	stopped := false
	defer func() {
		if !stopped {
			emu.Stop()
		}
	}()
	var saved allDump // what the snapshot files hold (state at the previous clean shutdown)
	for i := range saved {
		saved[i] = dbDump{Keys: map[string]keyDump{}}
	}
	lastKind := ""
	types := map[string]bool{}
	nontrivial := false
	maxKeys := 0
	for i, step := range c.Steps {
		argv := step.Strs()
		if argv[0] != "@RESTART" {
			v, err := conn.Do(argv...)
			if err != nil {
				return fmt.Errorf("step %d %s: %v", i, step, err)
			}
			if !v.IsErr() && !(v.K == kit.KInt && v.I == 0) && v.K != kit.KNil {
				switch argv[0] {
				case "SELECT":
				case "DEL", "UNLINK", "GETDEL", "FLUSHDB", "FLUSHALL":
					lastKind = "delete"
				case "LSET", "LINSERT", "LREM", "LTRIM", "LPOP", "RPOP", "LMOVE", "SREM", "SMOVE", "HDEL", "HINCRBY", "HINCRBYFLOAT", "HSETNX", "APPEND", "SETRANGE", "SETBIT",
					"PEXPIREAT", "EXPIRE", "PERSIST", "GETEX", "INCRBYFLOAT", "BITFIELD":
					lastKind = "inplace"
				default:
					lastKind = "replace"
				}
			}
			st.Class("cmd:" + argv[0])
			continue
		}
		// ---- clean shutdown and restart ----
		before, err := dumpAll(conn)
		if err != nil {
			return fmt.Errorf("dump before restart: %v", err)
		}
		for _, d := range before {
			for _, kd := range d.Keys {
				types[kd.Type] = true
			}
			if len(d.Keys) > maxKeys {
				maxKeys = len(d.Keys)
			}
		}
		st.Class("last-change-before-restart:" + lastKind)
		if (lastKind == "inplace" || lastKind == "delete") && len(types) >= 2 {
			nontrivial = true
		}
		mu.Lock()
		closing, images, stages = true, nil, nil
		wasTainted := tainted
		mu.Unlock()
		emu.CloseConns()
		emu.E.Close()
		stopped = true
		// once more after the save returned
		mu.Lock()
		img := filepath.Join(root, fmt.Sprintf("img-%d", len(images)))
		if copyDir(snapDir, img) == nil {
			images = append(images, img)
			stages = append(stages, "after-save")
		}
		imgs, stgs := images, stages
		closing, tainted = false, false
		mu.Unlock()

		// B: every crash image loads as the old or the new snapshot of each database
		if !wasTainted {
			for n, img := range imgs {
				ie := kit.StartEmu(filepath.Join(img, "data"))
				ic := ie.Dial()
				got, err := dumpAll(ic)
				ie.Stop()
				if err != nil {
					return fmt.Errorf("crash image at stage %s does not load cleanly: %v", stgs[n], err)
				}
				for db := 0; db < 16; db++ {
					if !dbEqual(got[db], saved[db]) && !dbEqual(got[db], before[db]) {
						return fmt.Errorf("a crash at save stage %s (image %d of %d) leaves database %d as %s, which is neither the previous snapshot %s nor the new one %s",
							stgs[n], n, len(imgs), db, dbText(got[db]), dbText(saved[db]), dbText(before[db]))
					}
				}
			}
			st.ClassN("crash-images-loaded", len(imgs))
			st.Extra["crash_images_loaded"] = addInt(st.Extra["crash_images_loaded"], len(imgs))
		} else {
			st.Class("segment-with-periodic-save(B skipped)")
		}
		for _, im := range imgs {
			os.RemoveAll(im)
		}

		// A: restart on the same path restores the acknowledged state
		emu = kit.StartEmuOn(emu.Port, persist)
		stopped = false
		conn = emu.Dial()
		after, err := dumpAll(conn)
		if err != nil {
			return fmt.Errorf("dump after restart: %v", err)
		}
		for db := 0; db < 16; db++ {
			if !dbEqual(before[db], after[db]) {
				return fmt.Errorf("restart %d (last change before shutdown: %s): database %d was %s before the clean shutdown and is %s after the restart",
					i, lastKind, db, dbText(before[db]), dbText(after[db]))
			}
		}
		// the dump reads lists from the head; a restored list must be the same list from the tail, too
		for db := 0; db < 16; db++ {
			for k, kd := range after[db].Keys {
				if kd.Type != "list" {
					continue
				}
				conn.Do("SELECT", strconv.Itoa(db))
				fwd, err := conn.Do("LRANGE", k, "0", "-1")
				if err != nil || fwd.K != kit.KArr {
					return fmt.Errorf("LRANGE %q after restart: %v %v", k, fwd, err)
				}
				for i := 1; i <= len(fwd.A) && i <= 5; i++ {
					v, err := conn.DoT(3*time.Second, "LINDEX", k, strconv.Itoa(-i))
					if err != nil || v.S != fwd.A[len(fwd.A)-i].S {
						return fmt.Errorf("restart %d: list %q of database %d reads %s from the head, but LINDEX %d replies %v (%v): the restored list is not the same list from the tail", i, k, db, fwd, -i, v, err)
					}
				}
				if len(fwd.A) >= 3 {
					// and it still is after elements were taken from the tail and put back
					conn.Do("RPOPLPUSH", k, k)
					conn.Do("LMOVE", k, k, "LEFT", "RIGHT")
					again, _ := conn.Do("LRANGE", k, "0", "-1")
					if !kit.Equal(again, fwd) {
						return fmt.Errorf("restart: list %q of database %d was %s; after rotating it one step back and one step forward it is %s", k, db, fwd, again)
					}
				}
			}
		}
		conn.Do("SELECT", "0")
		saved = before
		st.Class("restart")
	}
	if nontrivial {
		var sb strings.Builder
		for _, s := range c.Steps {
			sb.WriteString(s.String() + ";")
		}
		st.NonTrivial(sb.String(), SeqCase{Steps: c.Steps}.Sample())
	}
	return nil
}

func addInt(v any, n int) int {
	if x, ok := v.(int); ok {
		return x + n
	}
	return n
}

func TestC19(t *testing.T) {
	kit.Check(t, kit.Prop[C19Case]{ID: "C19", Gen: c19Gen, Run: c19Run})
}
