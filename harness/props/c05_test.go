package props

import (
	"strconv"
	"testing"

	"pgregory.net/rapid"

	"verifharness/kit"
	"verifharness/model"
)

// C05 — set commands and set algebra behave as Redis for every sequence.

var c05SetKeys = []string{"s1", "s2", "s3", "s4"}

func c05Key(t *rapid.T) string {
	return pick(t, "key", "s1", "s1", "s2", "s2", "s3", "s4", "str", "missing", "dst")
}

func c05Member(t *rapid.T) string {
	if rapid.IntRange(0, 30).Draw(t, "emptyname") == 0 {
		return "" // the empty string is a member like any other
	}
	return "m" + strconv.Itoa(rapid.IntRange(0, 7).Draw(t, "m"))
}

func c05Members(t *rapid.T, lo, hi int) []string {
	n := rapid.IntRange(lo, hi).Draw(t, "n")
	out := make([]string, n)
	for i := range out {
		out[i] = c05Member(t)
	}
	return out
}

func c05Operands(t *rapid.T) []string {
	n := rapid.IntRange(1, 4).Draw(t, "nops")
	out := make([]string, n)
	for i := range out {
		out[i] = pick(t, "op", "s1", "s2", "s3", "s4", "s1", "s2", "missing", "str", "dst")
	}
	return out
}

func c05Step(t *rapid.T) kit.Argv {
	k := c05Key(t)
	cn := func(s string) string { return randCase(t, s) }
	switch weighted(t, "cmd", []int{10, 6, 2, 3, 3, 4, 6, 4, 7, 9, 5, 1, 1, 3, 3, 3}) {
	case 14:
		// big set: the table grows beyond its initial 16 buckets
		a := []string{"SADD", pick(t, "bigk", "s1", "s2", "s3")}
		lo := rapid.IntRange(0, 30).Draw(t, "lo")
		for i := lo; i < lo+rapid.IntRange(12, 45).Draw(t, "n"); i++ {
			a = append(a, "b"+strconv.Itoa(i))
		}
		return kit.A(a...)
	case 15:
		// removal history: any number of earlier removals (the table's shrink counter) before an algebra command
		a := []string{"SREM", pick(t, "bigk", "s1", "s2", "s3")}
		lo := rapid.IntRange(0, 50).Draw(t, "lo")
		for i := lo; i < lo+rapid.IntRange(1, 40).Draw(t, "n"); i++ {
			a = append(a, "b"+strconv.Itoa(i))
		}
		return kit.A(a...)
	case 0:
		return kit.A(append([]string{cn("SADD"), k}, c05Members(t, 1, 4)...)...)
	case 1:
		return kit.A(append([]string{cn("SREM"), k}, c05Members(t, 1, 4)...)...)
	case 2:
		return kit.A(cn("SCARD"), k)
	case 3:
		return kit.A(cn("SISMEMBER"), k, c05Member(t))
	case 4:
		return kit.A(append([]string{cn("SMISMEMBER"), k}, c05Members(t, 1, 4)...)...)
	case 5:
		return kit.A(cn("SMEMBERS"), k)
	case 6:
		dst := c05Key(t)
		if rapid.IntRange(0, 3).Draw(t, "same") == 0 {
			dst = k
		}
		return kit.A(cn("SMOVE"), k, dst, c05Member(t))
	case 7:
		a := []string{cn("SRANDMEMBER"), k}
		if rapid.Bool().Draw(t, "cnt") {
			a = append(a, pick(t, "c", "0", "1", "-1", "2", "-2", "3", "-5", "8", "9", "-20", "100", "2147483648", "2147483648", "9223372036854775807", "4294967296"))
		}
		return kit.A(a...)
	case 8:
		return kit.A(append([]string{cn(pick(t, "alg", "SINTER", "SUNION", "SDIFF"))}, c05Operands(t)...)...)
	case 9:
		ops := c05Operands(t)
		dst := pick(t, "dst", "dst", "dst", "s1", "s2", "s3", "str", "fresh")
		if rapid.IntRange(0, 2).Draw(t, "dstop") == 0 {
			dst = ops[rapid.IntRange(0, len(ops)-1).Draw(t, "which")]
		}
		return kit.A(append([]string{cn(pick(t, "algs", "SINTERSTORE", "SUNIONSTORE", "SDIFFSTORE")), dst}, ops...)...)
	case 10:
		ops := c05Operands(t)
		a := append([]string{cn("SINTERCARD"), strconv.Itoa(len(ops))}, ops...)
		if rapid.Bool().Draw(t, "lim") {
			a = append(a, cn("LIMIT"), pick(t, "l", "0", "1", "2", "3", "7", "8", "9", "-1"))
		}
		return kit.A(a...)
	case 11:
		return goneStep(t, k)
	case 12:
		return kit.A(cn("SADD"), k) // wrong arity
	default:
		// fill a set so that non-empty operands are common
		return kit.A(append([]string{"SADD", pick(t, "sk", c05SetKeys...)}, c05Members(t, 3, 7)...)...)
	}
}

// c05Sparse: a few members from a wide name space (so that hash collisions make the one-item-per-bucket
// table 32, 64 ... buckets wide while it holds only a handful of members), a drawn number of add/remove
// cycles (the table's removal counter decides when it is rehashed to half its size), and then set algebra
// whose result construction removes members from a copy of that table.
func c05Sparse(t *rapid.T) []kit.Argv {
	var out []kit.Argv
	name := func() string { return "w" + strconv.Itoa(rapid.IntRange(0, 199).Draw(t, "w")) }
	a := []string{"SADD", "s1"}
	common := name()
	a = append(a, common)
	if rapid.IntRange(0, 2).Draw(t, "tail") == 0 {
		x, y := tailPair(t)
		a = append(a, x, y)
	}
	for i := rapid.IntRange(2, 8).Draw(t, "na"); i > 0; i-- {
		a = append(a, name())
	}
	out = append(out, kit.A("DEL", "s1", "s2"), kit.A(a...))
	b := []string{"SADD", "s2", common}
	for i := rapid.IntRange(0, 3).Draw(t, "nb"); i > 0; i-- {
		b = append(b, pick(t, "shared", a[2:]...))
	}
	b = append(b, name())
	out = append(out, kit.A(b...))
	for phase := rapid.IntRange(1, 4).Draw(t, "phases"); phase > 0; phase-- {
		for i := churnCount(t); i > 0; i-- {
			out = append(out, kit.A("SADD", "s1", "churn"), kit.A("SREM", "s1", "churn"))
		}
		out = append(out, c05SparseOps(t, a[2:])...)
	}
	return out
}

func c05SparseOps(t *rapid.T, members []string) []kit.Argv {
	var out []kit.Argv
	for i := rapid.IntRange(1, 3).Draw(t, "algs"); i > 0; i-- {
		out = append(out, kit.A(pick(t, "alg", []string{"SREM", "s1", pick(t, "rm1", members...)}, []string{"SMEMBERS", "s1"}, []string{"SCARD", "s1"}, []string{"SMISMEMBER", "s1", members[0], members[len(members)-1]}, []string{"SINTER", "s1", "s2"}, []string{"SINTERSTORE", "dst", "s1", "s2"}, []string{"SDIFF", "s1", "s2"}, []string{"SDIFFSTORE", "dst", "s1", "s2"},
			[]string{"SINTER", "s1", "s2", "s1"}, []string{"SUNION", "s1", "s2"}, []string{"SINTERCARD", "2", "s1", "s2"}, []string{"SINTERSTORE", "s1", "s1", "s2"})...))
	}
	return out
}

func c05Gen(t *rapid.T) SeqCase {
	steps := []kit.Argv{kit.A("SET", "str", "v")}
	n := rapid.IntRange(8, 45).Draw(t, "steps")
	for i := 0; i < n; i++ {
		if rapid.IntRange(0, 39).Draw(t, "sparse") == 0 {
			steps = append(steps, c05Sparse(t)...)
			continue
		}
		if rapid.IntRange(0, 14).Draw(t, "gone") == 0 {
			steps = append(steps, afterGone(t, []string{"s1", "s2", "s3", "s4", "dst"}, c05Step)...)
			continue
		}
		if rapid.IntRange(0, 19).Draw(t, "retype") == 0 {
			steps = append(steps, afterRetype(t, []string{"s1", "s2", "s3", "s4", "dst"}, c05Step)...)
			continue
		}
		steps = append(steps, c05Step(t))
	}
	return SeqCase{Steps: steps}
}

func setCard(db *model.DB, k string) int {
	if o := db.Keys[k]; o != nil && o.T == model.TSet {
		return len(o.Set)
	}
	return 0
}

func c05Observe(argv []string, before *model.DB, exp model.Exp, st *kit.Stats, flags map[string]int) {
	name := upper(argv[0])
	st.Class("cmd:" + name)
	if exp.IsErr() {
		return
	}
	switch name {
	case "SINTERSTORE", "SUNIONSTORE", "SDIFFSTORE":
		nonEmpty := 0
		for _, k := range argv[2:] {
			if setCard(before, k) > 0 {
				nonEmpty++
			}
			if k == argv[1] && setCard(before, k) > 0 {
				flags["dstop"]++
				st.Class("store-destination-is-operand")
			}
		}
		if nonEmpty >= 2 {
			flags["two"]++
		}
		if exp.Kind == model.EVal && exp.V.K == kit.KInt && exp.V.I == 0 && nonEmpty >= 1 {
			flags["empty"]++
			st.Class("store-empty-result")
		}
	case "SINTER", "SUNION", "SDIFF":
		nonEmpty := 0
		for _, k := range argv[1:] {
			if setCard(before, k) > 0 {
				nonEmpty++
			}
		}
		if nonEmpty >= 2 {
			flags["two"]++
		}
		if exp.Kind == model.EUnordered && len(exp.V.A) == 0 && nonEmpty >= 2 {
			flags["empty"]++
			st.Class("algebra-empty-result")
		}
	case "SREM", "SMOVE":
		if len(argv) > 1 && setCard(before, argv[1]) == 1 && exp.Kind == model.EVal && exp.V.I == 1 {
			flags["last"]++
			st.Class("last-member-removed")
		}
		if name == "SMOVE" && len(argv) > 2 && argv[1] == argv[2] {
			st.Class("smove-same-set")
		}
	}
}

func c05Run(c SeqCase, st *kit.Stats) error {
	flags := map[string]int{}
	err := runSeq(c, st, seqHooks{observe: c05Observe}, flags)
	if err == nil && flags["two"] > 0 && (flags["dstop"] > 0 || flags["empty"] > 0 || flags["last"] > 0) {
		st.NonTrivial(c.Canon(), c.Sample())
	}
	return err
}

func TestC05(t *testing.T) {
	kit.Check(t, kit.Prop[SeqCase]{ID: "C05", Gen: c05Gen, Run: c05Run})
}
