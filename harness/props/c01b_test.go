package props

import (
	"fmt"
	"strconv"
	"strings"
	"testing"
	"time"

	"pgregory.net/rapid"

	"verifharness/kit"
)

// C01 part B — replies stay in request order when an expensive reply is followed by cheap ones.
//
// One write carries a command whose reply is large (a multi-MiB value, a long list, a big hash or set,
// KEYS * over many keys) followed by cheap commands whose replies name their position (ECHO tag-i,
// INCR of a counter). The replies must come back in exactly the order sent.

type C01BCase struct {
	Big    int `json:"big"`    // 0 GET of a large value, 1 LRANGE, 2 HGETALL, 3 SMEMBERS, 4 KEYS *
	Size   int `json:"size"`   // bytes for 0, elements otherwise
	After  int `json:"after"`  // cheap commands behind the expensive one
	Before int `json:"before"` // cheap commands in front of it
	Rounds int `json:"rounds"`
	Proto  int `json:"proto"`
}

func c01BGen(t *rapid.T) C01BCase {
	c := C01BCase{Big: rapid.IntRange(0, 4).Draw(t, "big"), After: rapid.IntRange(1, 30).Draw(t, "after"), Before: rapid.IntRange(0, 3).Draw(t, "before"), Rounds: rapid.IntRange(1, 4).Draw(t, "rounds"), Proto: pick(t, "proto", 2, 3)}
	if c.Big == 0 {
		c.Size = pick(t, "bytes", 64<<10, 256<<10, 1<<20)
	} else {
		c.Size = pick(t, "elems", 500, 1500, 4000)
	}
	return c
}

func c01BRun(c C01BCase, st *kit.Stats) error {
	emu := kit.StartEmu("")
	defer emu.Stop()
	conn := emu.Dial()
	if c.Proto == 3 {
		conn.Hello3()
	}
	var setupErr error
	setup := func(a ...string) {
		if v, err := conn.Do(a...); setupErr == nil && (err != nil || v.IsErr()) {
			setupErr = fmt.Errorf("harness: set-up %s: %v %v", a[0], clip(v.String()), err)
		}
	}
	var big []string
	wantLen := c.Size
	switch c.Big {
	case 0:
		setup("SET", "big", strings.Repeat("B", c.Size))
		big = []string{"GET", "big"}
	case 1, 2, 3:
		for lo := 0; lo < c.Size; lo += 500 {
			a := []string{[]string{"", "RPUSH", "HSET", "SADD"}[c.Big], "big"}
			for i := lo; i < lo+500 && i < c.Size; i++ {
				a = append(a, "element-"+strconv.Itoa(i))
				if c.Big == 2 {
					a = append(a, "v")
				}
			}
			setup(a...)
		}
		big = [][]string{nil, {"LRANGE", "big", "0", "-1"}, {"HGETALL", "big"}, {"SMEMBERS", "big"}}[c.Big]
	default:
		for lo := 0; lo < c.Size; lo += 250 {
			a := []string{"MSET"}
			for i := lo; i < lo+250 && i < c.Size; i++ {
				a = append(a, "key-"+strconv.Itoa(i), "v")
			}
			setup(a...)
		}
		big = []string{"KEYS", "key-*"}
	}
	if setupErr != nil {
		return setupErr
	}
	ctr := 0
	for r := 0; r < c.Rounds; r++ {
		var req []byte
		var want []string // "" = the expensive reply
		for i := 0; i < c.Before; i++ {
			tag := fmt.Sprintf("pre-%d-%d", r, i)
			req = append(req, kit.EncodeCmd("ECHO", tag)...)
			want = append(want, tag)
		}
		req = append(req, kit.EncodeCmd(big...)...)
		want = append(want, "")
		for i := 0; i < c.After; i++ {
			if i%3 == 2 {
				ctr++
				req = append(req, kit.EncodeCmd("INCR", "ctr")...)
				want = append(want, ":"+strconv.Itoa(ctr))
				continue
			}
			tag := fmt.Sprintf("post-%d-%d", r, i)
			req = append(req, kit.EncodeCmd("ECHO", tag)...)
			want = append(want, tag)
		}
		if err := conn.Write(req); err != nil {
			return err
		}
		for i, w := range want {
			v, err := conn.Read(20 * time.Second)
			if err != nil {
				return fmt.Errorf("round %d: reply %d of %d: %v", r, i, len(want), err)
			}
			desc := fmt.Sprintf("round %d: %v preceded by %d and followed by %d cheap commands in one write: reply %d", r, big, c.Before, c.After, i)
			switch {
			case w == "":
				n := len(v.S)
				if v.K == kit.KArr || v.K == kit.KSet {
					n = len(v.A)
				} else if v.K == kit.KMap {
					n = len(v.A) / 2
				} else if v.K != kit.KBulk {
					return fmt.Errorf("%s should be the reply to %v but is %s", desc, big[:1], clip(v.String()))
				}
				if c.Big == 2 && v.K == kit.KArr {
					n /= 2
				}
				if n != wantLen {
					return fmt.Errorf("%s should be the reply to %v with %d bytes/elements but has %d", desc, big[:1], wantLen, n)
				}
			case w[0] == ':':
				if v.K != kit.KInt || ":"+strconv.FormatInt(v.I, 10) != w {
					return fmt.Errorf("%s should be %s (INCR) but is %s", desc, w, clip(v.String()))
				}
			default:
				if v.K != kit.KBulk || v.S != w {
					return fmt.Errorf("%s should be the reply to ECHO %s but is %s", desc, w, clip(v.String()))
				}
			}
		}
	}
	st.Class("big:" + big[0])
	st.NonTrivial(fmt.Sprintf("%+v", c), c)
	return nil
}

func TestC01B(t *testing.T) {
	kit.Check(t, kit.Prop[C01BCase]{ID: "C01B", Gen: c01BGen, Run: c01BRun})
}
