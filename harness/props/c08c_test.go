package props

import (
	"fmt"
	"strconv"
	"sync"
	"sync/atomic"
	"testing"
	"time"

	"pgregory.net/rapid"

	"verifharness/kit"
)

// C08 part C — whole-database commands are atomic against multi-key writes, whatever the connections did before.
//
// Two connections first go through a drawn history (transactions that ran, were aborted by WATCH, by a
// queueing error, were discarded; SELECT round trips; WATCH/UNWATCH). Then, round after round, one of
// them writes N keys with a single MSET while the other flushes at a moment spread over the duration
// of the MSET, and a third polls DBSIZE. The database holds nothing but those N keys, so every DBSIZE
// reply and the final count must be 0 or N.

type C08CCase struct {
	FlusherHist []int `json:"flusher_hist"`
	WriterHist  []int `json:"writer_hist"`
	WriterFirst bool  `json:"writer_first"` // whose history runs first
	Flush       int   `json:"flush"`        // 0 FLUSHALL 1 FLUSHDB 2 MULTI FLUSHALL EXEC 3 FLUSHALL ASYNC-less lower case
	N           int   `json:"n"`
	Rounds      int   `json:"rounds"`
	DB          int   `json:"db"`
}

var c08HistNames = []string{"nothing", "exec-ok", "exec-aborted-by-watch", "exec-aborted-by-queue-error", "discard", "select-round-trip", "watch-unwatch", "exec-with-runtime-error", "exec-empty"}

func c08CGen(t *rapid.T) C08CCase {
	hist := func(label string) []int {
		var h []int
		for n := rapid.IntRange(0, 3).Draw(t, label+"n"); n > 0; n-- {
			h = append(h, rapid.IntRange(1, len(c08HistNames)-1).Draw(t, label))
		}
		return h
	}
	return C08CCase{FlusherHist: hist("fh"), WriterHist: hist("wh"), WriterFirst: rapid.Bool().Draw(t, "wfirst"), Flush: rapid.IntRange(0, 5).Draw(t, "flush"),
		N: pick(t, "n", 400, 1200, 3000), Rounds: rapid.IntRange(10, 40).Draw(t, "rounds"), DB: pick(t, "db", 0, 0, 3)}
}

func c08History(conn, other *kit.Conn, h []int, tag string) error {
	for i, x := range h {
		w := fmt.Sprintf("hist-%s-%d", tag, i)
		var steps [][]string
		switch x {
		case 1:
			steps = [][]string{{"MULTI"}, {"SET", w, "1"}, {"EXEC"}}
		case 2:
			conn.Do("WATCH", w)
			other.Do("SET", w, "changed")
			steps = [][]string{{"MULTI"}, {"SET", w, "mine"}, {"EXEC"}}
		case 3:
			steps = [][]string{{"MULTI"}, {"SET", w}, {"EXEC"}}
		case 4:
			steps = [][]string{{"MULTI"}, {"SET", w, "1"}, {"DISCARD"}}
		case 5:
			steps = [][]string{{"SELECT", "9"}, {"SET", w, "1"}, {"DEL", w}, {"@BACK"}}
		case 6:
			steps = [][]string{{"WATCH", w}, {"UNWATCH"}}
		case 7:
			steps = [][]string{{"MULTI"}, {"SET", w, "1"}, {"LPUSH", w, "x"}, {"EXEC"}}
		case 8:
			steps = [][]string{{"MULTI"}, {"EXEC"}}
		}
		for _, s := range steps {
			if s[0] == "@BACK" {
				continue
			}
			if _, err := conn.Do(s...); err != nil {
				return fmt.Errorf("history %v: %v", s, err)
			}
		}
		conn.Do("DEL", w)
	}
	return nil
}

func c08CRun(c C08CCase, st *kit.Stats) error {
	stalls := kit.Stalls.Load()
	err := c08CRunInner(c, st)
	if err == nil {
		err = kit.StallError(stalls)
	}
	return err
}

func c08CRunInner(c C08CCase, st *kit.Stats) error {
	emu := kit.StartEmu("")
	defer emu.Stop()
	flusher, writer, reader, admin := emu.Dial(), emu.Dial(), emu.Dial(), emu.Dial()
	db := strconv.Itoa(c.DB)
	back := func(cn *kit.Conn) { cn.Do("SELECT", db) }
	for _, cn := range []*kit.Conn{flusher, writer, reader, admin} {
		back(cn)
	}
	run := func(cn *kit.Conn, h []int, tag string) error {
		if err := c08History(cn, admin, h, tag); err != nil {
			return err
		}
		back(cn)
		return nil
	}
	first, second := []any{flusher, c.FlusherHist, "f"}, []any{writer, c.WriterHist, "w"}
	if c.WriterFirst {
		first, second = second, first
	}
	for _, x := range [][]any{first, second} {
		if err := run(x[0].(*kit.Conn), x[1].([]int), x[2].(string)); err != nil {
			return err
		}
	}
	admin.Do("FLUSHALL")
	mset := []string{"MSET"}
	for i := 0; i < c.N; i++ {
		mset = append(mset, "k"+strconv.Itoa(i), "v")
	}
	// how long does one MSET take
	t0 := time.Now()
	writer.Do(mset...)
	dur := time.Since(t0)
	admin.Do("FLUSHALL")
	for _, x := range c.FlusherHist {
		st.Class("flusher-history:" + c08HistNames[x])
	}
	for r := 0; r < c.Rounds; r++ {
		var wg sync.WaitGroup
		var done atomic.Int32
		var bad atomic.Int64
		bad.Store(-1)
		wg.Add(3)
		go func() {
			defer wg.Done()
			defer done.Add(1)
			writer.Do(mset...)
		}()
		go func() {
			defer wg.Done()
			defer done.Add(1)
			time.Sleep(dur * time.Duration(r) / time.Duration(c.Rounds))
			switch c.Flush {
			case 0:
				flusher.Do("FLUSHALL")
			case 1:
				flusher.Do("FLUSHDB")
			case 2:
				flusher.Do("MULTI")
				flusher.Do("FLUSHALL")
				flusher.Do("EXEC")
			case 3:
				flusher.Do("flushall")
			case 4:
				flusher.Do("FLUSHALL", "ASYNC")
			default:
				flusher.Do("FLUSHDB", "ASYNC")
			}
			// what this connection writes after its flush was acknowledged is not flushed
			flusher.Do("SET", "marker", strconv.Itoa(r))
		}()
		go func() {
			defer wg.Done()
			for done.Load() < 2 {
				v, err := reader.Do("DBSIZE")
				if err == nil && v.K == kit.KInt && v.I != 0 && v.I != 1 && v.I != int64(c.N) && v.I != int64(c.N)+1 {
					bad.Store(v.I)
					return
				}
			}
		}()
		wg.Wait()
		what := []string{"FLUSHALL", "FLUSHDB", "MULTI/FLUSHALL/EXEC", "flushall", "FLUSHALL ASYNC", "FLUSHDB ASYNC"}[c.Flush]
		hist := func(h []int) []string {
			var out []string
			for _, x := range h {
				out = append(out, c08HistNames[x])
			}
			return out
		}
		if b := bad.Load(); b >= 0 {
			return fmt.Errorf("round %d: while one connection ran MSET of %d keys and another ran %s, DBSIZE replied %d: a partially applied command is visible (flusher history %v, writer history %v)", r, c.N, what, b, hist(c.FlusherHist), hist(c.WriterHist))
		}
		if mv, err := flusher.Do("GET", "marker"); err != nil || !kit.Equal(mv, kit.Bulk(strconv.Itoa(r))) {
			return fmt.Errorf("round %d: a connection ran %s, then SET marker %d (both acknowledged); its GET marker now replies %v: the flush took effect after a later command of the same connection (flusher history %v, writer history %v)", r, what, r, mv, hist(c.FlusherHist), hist(c.WriterHist))
		}
		flusher.Do("DEL", "marker")
		v, err := admin.Do("DBSIZE")
		if err != nil || v.K != kit.KInt || (v.I != 0 && v.I != int64(c.N)) {
			return fmt.Errorf("round %d: after a concurrent MSET of %d keys and %s the database holds %v keys: no order of the two commands gives that (flusher history %v, writer history %v)", r, c.N, what, v, hist(c.FlusherHist), hist(c.WriterHist))
		}
	}
	st.ClassN("concurrent-commands", c.Rounds*2)
	if len(c.FlusherHist)+len(c.WriterHist) > 0 {
		st.NonTrivial(fmt.Sprintf("%+v", c), c)
	}
	return nil
}

func TestC08C(t *testing.T) {
	kit.Check(t, kit.Prop[C08CCase]{ID: "C08C", Gen: c08CGen, Run: c08CRun})
}
