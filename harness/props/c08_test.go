package props

import (
	"fmt"
	"sort"
	"strconv"
	"strings"
	"sync"
	"sync/atomic"
	"testing"
	"time"

	"pgregory.net/rapid"

	"verifharness/kit"
	"verifharness/model"
)

// C08 — every command is atomic: concurrent histories are linearizable.
//
// (i) short histories: k connections x few commands on hot keys, released by a barrier; a
//     Wing-Gong/Lowe style search over the reference model must find a sequential order that
//     respects per-connection order and real-time precedence, explains every reply, and ends in the
//     observed final state.
// (ii) long conservation workloads with invariants that any lost update or half-applied multi-key
//     command breaks.

type C08Case struct {
	Setup []kit.Argv   `json:"setup"`
	Conns [][]kit.Argv `json:"conns"`
	Pad   int          `json:"pad"` // extra payload bytes on values (lengthens critical sections)
}

func c08Cmd(t *rapid.T, pad string) []string {
	k := pick(t, "k", "a", "b", "c")
	k2 := pick(t, "k2", "a", "b", "c")
	v := pick(t, "v", "1", "2", "x") + pad
	return pick(t, "cmd",
		[]string{"INCR", "n"}, []string{"INCRBY", "n", "3"}, []string{"DECR", "n"}, []string{"APPEND", "s", v}, []string{"GET", "n"}, []string{"STRLEN", "s"},
		[]string{"LPUSH", "l", v, "y" + pad}, []string{"RPUSH", "l", v}, []string{"RPOP", "l"}, []string{"LPOP", "l", "2"}, []string{"LLEN", "l"}, []string{"LRANGE", "l", "0", "-1"},
		[]string{"LMOVE", "l", "l2", "LEFT", "RIGHT"}, []string{"LMOVE", "l2", "l", "RIGHT", "LEFT"}, []string{"RPOPLPUSH", "l", "l"},
		[]string{"HINCRBY", "h", "f", "1"}, []string{"HINCRBY", "h", "f", "-2"}, []string{"HSET", "h", "g", v}, []string{"HGETALL", "h"}, []string{"HDEL", "h", "f"},
		[]string{"SADD", "z", v, "m"}, []string{"SREM", "z", "m"}, []string{"SMOVE", "z", "z2", "m"}, []string{"SMOVE", "z2", "z", "m"}, []string{"SCARD", "z"}, []string{"SMEMBERS", "z"},
		[]string{"SUNIONSTORE", "z3", "z", "z2"}, []string{"SINTERSTORE", "z3", "z", "z2"}, []string{"SDIFFSTORE", "z", "z", "z2"}, []string{"SINTERCARD", "2", "z", "z2"},
		[]string{"MSET", k, v, k2, v}, []string{"MSET", "a", v, "b", v, "c", v}, []string{"MSETNX", k, v, k2, v}, []string{"MGET", "a", "b", "c"},
		[]string{"RENAME", k, k2}, []string{"RENAMENX", k, k2}, []string{"COPY", k, k2, "REPLACE"}, []string{"COPY", "l", "l2", "REPLACE"}, []string{"DEL", "a", "b", "c"}, []string{"EXISTS", "a", "b", "c"},
		[]string{"SET", k, v}, []string{"GETSET", k, v}, []string{"GETDEL", k}, []string{"SETNX", k, v}, []string{"BITOP", "OR", "a", "a", "b"}, []string{"BITOP", "XOR", "c", "a", "b"},
		[]string{"SETRANGE", "s", "1", "zz"}, []string{"SORT", "l", "ALPHA", "STORE", "l2"}, []string{"DBSIZE"},
		// rejected commands: no part of them may be applied
		[]string{"LMOVE", "l", "n", "LEFT", "RIGHT"}, []string{"RPOPLPUSH", "l", "h"}, []string{"SMOVE", "z", "n", "m"}, []string{"LMOVE", "l2", "z", "RIGHT", "LEFT"}, []string{"SUNIONSTORE", "z3", "z", "l"},
		[]string{"RENAME", "nosuch", "a"}, []string{"MSETNX", "n", "1", "fresh", "2"}, []string{"INCR", "s"}, []string{"LPUSH", "n", "x"}, []string{"COPY", "l", "z"},
	)
}

func c08Gen(t *rapid.T) C08Case {
	c := C08Case{Pad: pick(t, "pad", 0, 0, 64, 4096)}
	pad := strings.Repeat("p", c.Pad)
	c.Setup = []kit.Argv{kit.A("SET", "n", "10"), kit.A("RPUSH", "l", "e1", "e2", "e3"), kit.A("SADD", "z", "m", "q"), kit.A("HSET", "h", "f", "5"), kit.A("MSET", "a", "1", "b", "2")}
	k := rapid.IntRange(2, 4).Draw(t, "conns")
	for i := 0; i < k; i++ {
		var cmds []kit.Argv
		if i < 2 && rapid.IntRange(0, 7).Draw(t, "alias") == 0 {
			// a value copied or moved as a whole, then both names changed in place (by this connection and, with
			// luck, by the other one at the same time): the two keys are independent from the copy on
			src, dst := pick(t, "asrc", "a", "b", "s"), pick(t, "adst", "c", "a", "b")
			cmds = append(cmds, kit.A("COPY", src, dst, "REPLACE"), kit.A("APPEND", src, "X"), kit.A("APPEND", dst, "Y"), kit.A(pick(t, "ard", []string{"GET", src}, []string{"MGET", src, dst}, []string{"STRLEN", src})...))
			if rapid.Bool().Draw(t, "amore") {
				cmds = append(cmds, kit.A("SETRANGE", dst, "0", "Q"), kit.A("GET", src))
			}
			c.Conns = append(c.Conns, cmds)
			continue
		}
		for j := rapid.IntRange(2, 5).Draw(t, "cmds"); j > 0; j-- {
			cmds = append(cmds, kit.A(c08Cmd(t, pad)...))
		}
		c.Conns = append(c.Conns, cmds)
	}
	return c
}

type c08Op struct {
	conn, idx  int
	argv       []string
	inv, resp  time.Time
	reply      kit.Value
	precededBy []int // ops that completed before this one was invoked (real time), incl. program order
}

func dbKey(db *model.DB) string {
	keys := make([]string, 0, len(db.Keys))
	for k := range db.Keys {
		keys = append(keys, k)
	}
	sort.Strings(keys)
	var sb strings.Builder
	for _, k := range keys {
		o := db.Keys[k]
		fmt.Fprintf(&sb, "%s\x00%d\x00%s\x01", k, o.T, modelValue(o))
	}
	return sb.String()
}

// linearizable searches for a sequential witness.
func linearizable(ops []*c08Op, initial *model.DB, final dbDump) (bool, int) {
	n := len(ops)
	type memoKey struct {
		done  uint32
		state string
	}
	seen := map[memoKey]bool{}
	explored := 0
	tm := model.Time{Lo: nowMs(), Hi: nowMs()}
	var dfs func(done uint32, db *model.DB) bool
	dfs = func(done uint32, db *model.DB) bool {
		explored++
		if explored > 400000 {
			return false
		}
		if done == uint32(1)<<n-1 {
			// every operation placed: the final state must match too
			return compareDump(final, db.Clone(), tm) == nil
		}
		mk := memoKey{done, dbKey(db)}
		if seen[mk] {
			return false
		}
		seen[mk] = true
		for i, op := range ops {
			if done&(1<<i) != 0 {
				continue
			}
			ok := true
			for _, p := range op.precededBy {
				if done&(1<<p) == 0 {
					ok = false
					break
				}
			}
			if !ok {
				continue
			}
			next := db.Clone()
			exp := next.Exec(op.argv, tm)
			if exp.Match(op.reply) != nil {
				continue
			}
			if dfs(done|1<<i, next) {
				return true
			}
		}
		return false
	}
	ok := dfs(0, initial)
	return ok, explored
}

func c08Run(c C08Case, st *kit.Stats) error {
	emu := kit.StartEmu("")
	defer emu.Stop()
	admin := emu.Dial()
	db := model.NewDB()
	for _, s := range c.Setup {
		n := nowMs()
		v, err := admin.Do(s.Strs()...)
		if err != nil {
			return fmt.Errorf("setup: %v", err)
		}
		if err := db.Exec(s.Strs(), model.Time{Lo: n, Hi: n}).Match(v); err != nil {
			return fmt.Errorf("setup %s: %v", s, err)
		}
	}
	conns := make([]*kit.Conn, len(c.Conns))
	for i := range conns {
		conns[i] = emu.Dial()
		conns[i].Do("PING")
	}
	var ops []*c08Op
	perConn := make([][]*c08Op, len(c.Conns))
	for ci, cmds := range c.Conns {
		for j, a := range cmds {
			op := &c08Op{conn: ci, idx: j, argv: a.Strs()}
			perConn[ci] = append(perConn[ci], op)
			ops = append(ops, op)
		}
	}
	if len(ops) > 24 {
		return nil
	}
	start := make(chan struct{})
	var wg sync.WaitGroup
	errs := make(chan error, len(conns))
	for ci := range conns {
		wg.Add(1)
		go func(ci int) {
			defer wg.Done()
			<-start
			for _, op := range perConn[ci] {
				op.inv = time.Now()
				v, err := conns[ci].Do(op.argv...)
				op.resp = time.Now()
				if err != nil {
					errs <- fmt.Errorf("c%d %v: %v", ci, op.argv, err)
					return
				}
				op.reply = v
			}
		}(ci)
	}
	close(start)
	wg.Wait()
	select {
	case e := <-errs:
		return e
	default:
	}
	final, err := dumpEmu(admin)
	if err != nil {
		return fmt.Errorf("final dump: %v", err)
	}
	overlap := false
	for i, a := range ops {
		for j, b := range ops {
			if i == j {
				continue
			}
			if b.resp.Before(a.inv) {
				a.precededBy = append(a.precededBy, j)
			} else if a.conn != b.conn && a.inv.Before(b.resp) && b.inv.Before(a.resp) {
				// overlapping in real time on a common key, at least one a write?
				for _, x := range a.argv[1:] {
					for _, y := range b.argv[1:] {
						if x == y && len(x) <= 2 {
							overlap = true
						}
					}
				}
			}
		}
	}
	ok, explored := linearizable(ops, db, final)
	st.ClassN("search-nodes", explored)
	if !ok {
		if explored > 400000 {
			st.Class("search-budget-exhausted(inconclusive)")
			return nil
		}
		var sb strings.Builder
		for ci := range perConn {
			for _, op := range perConn[ci] {
				fmt.Fprintf(&sb, "\n  c%d [%6dus..%6dus] %s -> %s", ci, op.inv.Sub(ops[0].inv).Microseconds(), op.resp.Sub(ops[0].inv).Microseconds(), kit.A(op.argv...), op.reply)
			}
		}
		return fmt.Errorf("no sequential order of these commands (respecting each connection's order and real-time precedence) explains the replies and the final state %s:%s", dbText(final), sb.String())
	}
	if overlap {
		st.Class("histories-with-real-time-overlap-on-a-common-key")
		var sig []string
		for ci := range c.Conns {
			var l []string
			for _, a := range c.Conns[ci] {
				l = append(l, a.String())
			}
			sig = append(sig, strings.Join(l, ";"))
		}
		sort.Strings(sig)
		st.NonTrivial(strings.Join(sig, "|"), sig)
	}
	return nil
}

func TestC08(t *testing.T) {
	kit.Check(t, kit.Prop[C08Case]{ID: "C08", Gen: c08Gen, Run: c08Run})
}

// ---- (ii) conservation workloads ---------------------------------------------------------------------------

type C08BCase struct {
	Conns int `json:"conns"`
	Ops   int `json:"ops"`  // per connection
	Kind  int `json:"kind"` // 0 counters 1 list conservation 2 MSET/MGET all-equal 3 RENAME ping-pong 4 SMOVE conservation 5 LMOVE rotation 6 MSETNX / SETNX / RENAMENX / COPY winner-takes-all rounds
	Pad   int `json:"pad"`
}

func c08BGen(t *rapid.T) C08BCase {
	return C08BCase{Conns: rapid.IntRange(4, 16).Draw(t, "conns"), Ops: rapid.IntRange(100, 600).Draw(t, "ops"), Kind: pick(t, "kind", 0, 1, 2, 3, 4, 5, 6, 6, 6, 7, 8), Pad: pick(t, "pad", 0, 16, 1024)}
}

func c08BRun(c C08BCase, st *kit.Stats) error {
	stalls := kit.Stalls.Load()
	err := c08BRunInner(c, st)
	if err == nil {
		err = kit.StallError(stalls)
	}
	return err
}

func c08BRunInner(c C08BCase, st *kit.Stats) error {
	emu := kit.StartEmu("")
	defer emu.Stop()
	admin := emu.Dial()
	pad := strings.Repeat("p", c.Pad)
	switch c.Kind {
	case 2:
		admin.Do("MSET", "k0", "0"+pad, "k1", "0"+pad, "k2", "0"+pad, "k3", "0"+pad)
	case 3:
		admin.Do("SET", "ping", "v")
	case 4:
		admin.Do("SADD", "sa", "m0", "m1", "m2", "m3", "m4", "m5", "m6", "m7")
	case 5:
		admin.Do("RPUSH", "ring", "r0", "r1", "r2", "r3", "r4")
	}
	if c.Kind == 6 {
		return c08Rounds(c, emu, st)
	}
	if c.Kind == 7 {
		return c08Torn(c, emu, st)
	}
	if c.Kind == 8 {
		return c08Derived(c, emu, st)
	}
	var wg sync.WaitGroup
	errs := make(chan error, c.Conns)
	popped := make([][]string, c.Conns)
	for i := 0; i < c.Conns; i++ {
		conn := emu.Dial()
		wg.Add(1)
		go func(i int, conn *kit.Conn) {
			defer wg.Done()
			fail := func(f string, a ...any) { errs <- fmt.Errorf(f, a...) }
			for j := 0; j < c.Ops; j++ {
				switch c.Kind {
				case 0:
					var a []string
					switch j % 4 {
					case 0:
						a = []string{"INCR", "ctr"}
					case 1:
						a = []string{"HINCRBY", "hctr", "f", "1"}
					case 2:
						a = []string{"INCRBY", "ctr", "2"}
					default:
						a = []string{"APPEND", "app", "x"}
					}
					if v, err := conn.Do(a...); err != nil || v.IsErr() {
						fail("%v: %v %v", a, v, err)
						return
					}
				case 1:
					if j%2 == 0 {
						conn.Do("LPUSH", "q", fmt.Sprintf("c%d-%d%s", i, j, pad), fmt.Sprintf("c%d-%db%s", i, j, pad))
					} else {
						v, err := conn.Do("RPOP", "q")
						if err != nil {
							fail("RPOP: %v", err)
							return
						}
						if v.K == kit.KBulk {
							popped[i] = append(popped[i], v.S)
						}
					}
				case 2:
					if i%2 == 0 {
						val := fmt.Sprintf("%d-%d%s", i, j, pad)
						conn.Do("MSET", "k0", val, "k1", val, "k2", val, "k3", val)
					} else {
						v, err := conn.Do("MGET", "k0", "k1", "k2", "k3")
						if err != nil || v.K != kit.KArr || len(v.A) != 4 {
							fail("MGET: %v %v", v, err)
							return
						}
						for x := 1; x < 4; x++ {
							if !kit.Equal(v.A[0], v.A[x]) {
								fail("MGET saw a half-applied MSET: k0=%s but k%d=%s (every MSET writes the same value to all four keys)", clip(v.A[0].S), x, clip(v.A[x].S))
								return
							}
						}
					}
				case 3:
					if i%2 == 0 {
						if j%2 == 0 {
							conn.Do("RENAME", "ping", "pong")
						} else {
							conn.Do("RENAME", "pong", "ping")
						}
					} else {
						v, err := conn.Do("EXISTS", "ping", "pong")
						if err != nil || !kit.Equal(v, kit.Int(1)) {
							fail("EXISTS ping pong = %v %v: the key is renamed back and forth atomically, exactly one name must exist at any time", v, err)
							return
						}
					}
				case 4:
					m := "m" + strconv.Itoa((i+j)%8)
					if j%2 == 0 {
						conn.Do("SMOVE", "sa", "sb", m)
					} else {
						conn.Do("SMOVE", "sb", "sa", m)
					}
					if j%5 == 0 {
						v, err := conn.Do("SINTERCARD", "2", "sa", "sb")
						if err != nil || !kit.Equal(v, kit.Int(0)) {
							fail("SINTERCARD sa sb = %v %v: a member is in exactly one of the two sets", v, err)
							return
						}
					}
				case 5:
					conn.Do("LMOVE", "ring", "ring", "LEFT", "RIGHT")
					if j%3 == 0 {
						v, err := conn.Do("LLEN", "ring")
						if err != nil || !kit.Equal(v, kit.Int(5)) {
							fail("LLEN ring = %v %v: rotating a list never changes its length", v, err)
							return
						}
					}
				}
			}
		}(i, conn)
	}
	wg.Wait()
	select {
	case e := <-errs:
		return e
	default:
	}
	total := c.Conns * c.Ops
	st.ClassN("concurrent-commands", total)
	st.Class(fmt.Sprintf("kind:%d", c.Kind))
	switch c.Kind {
	case 0:
		perConn := func(mod int) int {
			n := 0
			for j := 0; j < c.Ops; j++ {
				if j%4 == mod {
					n++
				}
			}
			return n
		}
		wantCtr := c.Conns * (perConn(0) + 2*perConn(2))
		v, _ := admin.Do("GET", "ctr")
		if v.S != strconv.Itoa(wantCtr) {
			return fmt.Errorf("lost update: %d INCR and %d INCRBY 2 were acknowledged, the counter is %s instead of %d", c.Conns*perConn(0), c.Conns*perConn(2), v, wantCtr)
		}
		v, _ = admin.Do("HGET", "hctr", "f")
		if v.S != strconv.Itoa(c.Conns*perConn(1)) {
			return fmt.Errorf("lost update: %d HINCRBY were acknowledged, the field is %s", c.Conns*perConn(1), v)
		}
		v, _ = admin.Do("STRLEN", "app")
		if v.I != int64(c.Conns*perConn(3)) {
			return fmt.Errorf("lost update: %d APPEND of one byte were acknowledged, the string has %s bytes", c.Conns*perConn(3), v)
		}
	case 1:
		v, _ := admin.Do("LRANGE", "q", "0", "-1")
		rest, _ := v.Strings()
		seen := map[string]int{}
		for _, e := range rest {
			seen[e]++
		}
		npop := 0
		for _, p := range popped {
			for _, e := range p {
				seen[e]++
				npop++
			}
		}
		pushes := 0
		for j := 0; j < c.Ops; j++ {
			if j%2 == 0 {
				pushes += 2
			}
		}
		pushes *= c.Conns
		if len(seen) != pushes {
			return fmt.Errorf("conservation broken: %d elements were pushed, %d distinct elements were popped or remain (%d popped, %d remaining)", pushes, len(seen), npop, len(rest))
		}
		for e, n := range seen {
			if n != 1 {
				return fmt.Errorf("element %s was delivered %d times", clip(e), n)
			}
		}
	case 4:
		a, _ := admin.Do("SCARD", "sa")
		b, _ := admin.Do("SCARD", "sb")
		if a.I+b.I != 8 {
			return fmt.Errorf("conservation broken: 8 members are moved between two sets, afterwards SCARD sa + SCARD sb = %d + %d", a.I, b.I)
		}
	case 5:
		v, _ := admin.Do("LRANGE", "ring", "0", "-1")
		l, _ := v.Strings()
		sort.Strings(l)
		if strings.Join(l, ",") != "r0,r1,r2,r3,r4" {
			return fmt.Errorf("rotation lost or duplicated elements: ring holds %v", l)
		}
	}
	st.NonTrivial(fmt.Sprintf("%+v", c), c)
	return nil
}

// c08Rounds: in every round all connections race for the same fresh keys with a conditional
// multi-key write; exactly one may win, and what is stored must be entirely the winner's.
func c08Rounds(c C08BCase, emu *kit.Emu, st *kit.Stats) error {
	rounds := c.Ops / 4
	if rounds > 120 {
		rounds = 120
	}
	conns := make([]*kit.Conn, c.Conns)
	for i := range conns {
		conns[i] = emu.Dial()
		conns[i].Do("PING")
	}
	admin := emu.Dial()
	pad := strings.Repeat("p", c.Pad)
	for r := 0; r < rounds; r++ {
		mode := r % 4
		keys := []string{fmt.Sprintf("r%d_0", r), fmt.Sprintf("r%d_1", r), fmt.Sprintf("r%d_2", r), fmt.Sprintf("r%d_3", r)}
		if mode == 2 || mode == 3 {
			for i := range conns {
				admin.Do("SET", fmt.Sprintf("src%d_%d", r, i), fmt.Sprintf("c%d%s", i, pad))
			}
		}
		replies := make([]kit.Value, len(conns))
		errs := make([]error, len(conns))
		var wg sync.WaitGroup
		start := make(chan struct{})
		for i := range conns {
			wg.Add(1)
			go func(i int) {
				defer wg.Done()
				val := fmt.Sprintf("c%d%s", i, pad)
				var argv []string
				switch mode {
				case 0:
					argv = []string{"MSETNX"}
					// different key orders, so that the checks of two commands interleave
					for j := range keys {
						k := keys[(j+i)%len(keys)]
						if i%2 == 1 {
							k = keys[(len(keys)-1-j+i)%len(keys)]
						}
						argv = append(argv, k, val)
					}
				case 1:
					argv = []string{"SETNX", keys[0], val}
				case 2:
					argv = []string{"RENAMENX", fmt.Sprintf("src%d_%d", r, i), keys[0]}
				default:
					argv = []string{"COPY", fmt.Sprintf("src%d_%d", r, i), keys[0]}
				}
				<-start
				replies[i], errs[i] = conns[i].Do(argv...)
			}(i)
		}
		close(start)
		wg.Wait()
		winners := []int{}
		for i := range conns {
			if errs[i] != nil {
				return fmt.Errorf("round %d: %v", r, errs[i])
			}
			if kit.Equal(replies[i], kit.Int(1)) {
				winners = append(winners, i)
			} else if !kit.Equal(replies[i], kit.Int(0)) {
				return fmt.Errorf("round %d: reply %s", r, replies[i])
			}
		}
		name := []string{"MSETNX", "SETNX", "RENAMENX", "COPY"}[mode]
		if len(winners) != 1 {
			return fmt.Errorf("round %d: %d connections raced with %s for the same missing key(s) and %d of them were told they had set them (connections %v): exactly one conditional write can succeed", r, len(conns), name, len(winners), winners)
		}
		want := fmt.Sprintf("c%d%s", winners[0], pad)
		n := 1
		if mode == 0 {
			n = len(keys)
		}
		for _, k := range keys[:n] {
			v, _ := admin.Do("GET", k)
			if v.S != want {
				return fmt.Errorf("round %d: connection %d won the %s, but key %s holds the value of another connection (%s)", r, winners[0], name, k, clip(v.S))
			}
		}
	}
	st.ClassN("concurrent-commands", rounds*c.Conns)
	st.Class("kind:6")
	st.NonTrivial(fmt.Sprintf("%+v", c), c)
	return nil
}

// c08Torn: writers replace the whole content of one large string (all 0x00 <-> all 0xFF, same length) with SET,
// SETRANGE at offset 0 or MSET, while readers scan it (BITCOUNT, GET, GETRANGE, BITPOS, STRLEN). Every command is
// atomic, so every reader sees one of the two contents in full: a BITCOUNT other than 0 or 8n, or a GET that
// is not uniform, is a half-applied write.
func c08Torn(c C08BCase, emu *kit.Emu, st *kit.Stats) error {
	n := 64<<10 + c.Pad*256 // 64 KiB, 68 KiB, 320 KiB
	zero, ones := strings.Repeat("\x00", n), strings.Repeat("\xff", n)
	admin := emu.Dial()
	admin.Do("SET", "big", zero)
	writers, readers := 1+c.Conns/8, 2+c.Conns/4
	ops := c.Ops / 4
	var wg sync.WaitGroup
	errs := make(chan error, writers+readers)
	var stop atomic.Bool
	for w := 0; w < writers; w++ {
		conn := emu.Dial()
		wg.Add(1)
		go func(w int) {
			defer wg.Done()
			for j := 0; j < ops && !stop.Load(); j++ {
				v := zero
				if j%2 == 0 {
					v = ones
				}
				switch (j/2 + w) % 3 {
				case 0:
					conn.Do("SETRANGE", "big", "0", v)
				case 1:
					conn.Do("SET", "big", v)
				default:
					conn.Do("MSET", "big", v, "other", "x")
				}
			}
		}(w)
	}
	for r := 0; r < readers; r++ {
		conn := emu.Dial()
		wg.Add(1)
		go func(r int) {
			defer wg.Done()
			for j := 0; j < ops*2 && !stop.Load(); j++ {
				switch (j + r) % 4 {
				case 0, 1:
					v, err := conn.Do("BITCOUNT", "big")
					if err == nil && v.K == kit.KInt && v.I != 0 && v.I != int64(8*n) {
						errs <- fmt.Errorf("BITCOUNT of a %d-byte string that writers only ever set to all-zero or all-one bits replied %d: a half-applied write was observed", n, v.I)
						stop.Store(true)
						return
					}
				case 2:
					v, err := conn.Do("GET", "big")
					if err == nil && v.K == kit.KBulk && len(v.S) == n && (v.S[0] != v.S[n-1] || v.S[0] != v.S[n/2] || strings.Count(v.S, v.S[:1]) != n) {
						errs <- fmt.Errorf("GET of a %d-byte string that writers only ever set to all 0x00 or all 0xFF returned a mix of both: a half-applied write was observed", n)
						stop.Store(true)
						return
					}
				default:
					v, err := conn.Do("BITPOS", "big", "1")
					if err == nil && v.K == kit.KInt && v.I != -1 && v.I != 0 {
						errs <- fmt.Errorf("BITPOS big 1 on a string that is all 0x00 or all 0xFF replied %d: a half-applied write was observed", v.I)
						stop.Store(true)
						return
					}
				}
			}
		}(r)
	}
	wg.Wait()
	select {
	case err := <-errs:
		return err
	default:
	}
	st.ClassN("concurrent-commands", ops*(writers+2*readers))
	st.Class("kind:7")
	st.NonTrivial(fmt.Sprintf("%+v", c), c)
	return nil
}

// c08Derived: commands that derive one key from others (BITOP, COPY, the STORE forms) or act on several keys at
// once (DEL, EXISTS) run against writers that keep an invariant over their operands: a large string that is
// always uniform, a marker member that is always in exactly one of two large sets, three keys that exist
// together or not at all. Whatever the derived command saw, it saw it at one instant, so the invariant holds
// for its result.
func c08Derived(c C08BCase, emu *kit.Emu, st *kit.Stats) error {
	n := 32<<10 + c.Pad*64
	zero, ones := strings.Repeat("\x00", n), strings.Repeat("\xff", n)
	admin := emu.Dial()
	admin.Do("SET", "big", zero)
	members := 2000 + c.Pad*2
	for _, k := range []string{"s1", "s2"} {
		for lo := 0; lo < members; lo += 500 {
			a := []string{"SADD", k}
			for i := lo; i < lo+500 && i < members; i++ {
				a = append(a, k+"-"+strconv.Itoa(i))
			}
			admin.Do(a...)
		}
	}
	admin.Do("SADD", "s1", "marker")
	admin.Do("MSET", "g1", "1", "g2", "1", "g3", "1")
	ops := c.Ops / 4
	var wg sync.WaitGroup
	errs := make(chan error, 16)
	var stop atomic.Bool
	fail := func(f string, a ...any) {
		select {
		case errs <- fmt.Errorf(f, a...):
		default:
		}
		stop.Store(true)
	}
	spawn := func(fn func(conn *kit.Conn, j int)) {
		conn := emu.Dial()
		wg.Add(1)
		go func() {
			defer wg.Done()
			for j := 0; j < ops && !stop.Load(); j++ {
				fn(conn, j)
			}
		}()
	}
	uniform := func(s string) bool { return len(s) == 0 || strings.Count(s, s[:1]) == len(s) }
	// writers
	spawn(func(conn *kit.Conn, j int) {
		if j%2 == 0 {
			conn.Do("SET", "big", ones)
		} else {
			conn.Do("SETRANGE", "big", "0", zero)
		}
	})
	spawn(func(conn *kit.Conn, j int) {
		if j%2 == 0 {
			conn.Do("SMOVE", "s1", "s2", "marker")
		} else {
			conn.Do("SMOVE", "s2", "s1", "marker")
		}
	})
	spawn(func(conn *kit.Conn, j int) {
		if j%2 == 0 {
			conn.Do("DEL", "g1", "g2", "g3")
		} else {
			conn.Do("MSET", "g3", "1", "g2", "1", "g1", "1")
		}
	})
	// derived commands
	for r := 0; r < 1+c.Conns/6; r++ {
		r := r
		spawn(func(conn *kit.Conn, j int) {
			dst := "d" + strconv.Itoa(r)
			switch j % 5 {
			case 0:
				conn.Do("BITOP", "NOT", dst, "big")
				if v, err := conn.Do("GET", dst); err == nil && v.K == kit.KBulk && (len(v.S) != n || !uniform(v.S)) {
					fail("BITOP NOT of a %d-byte string that is always all 0x00 or all 0xFF produced a %d-byte result that is not uniform: it read a half-applied write", n, len(v.S))
				}
			case 1:
				conn.Do("COPY", "big", dst, "REPLACE")
				if v, err := conn.Do("GET", dst); err == nil && v.K == kit.KBulk && (len(v.S) != n || !uniform(v.S)) {
					fail("COPY of a %d-byte string that is always all 0x00 or all 0xFF produced a %d-byte copy that is not uniform", n, len(v.S))
				}
			case 2:
				if v, err := conn.Do("SUNIONSTORE", dst, "s1", "s2"); err == nil && v.K == kit.KInt && v.I != int64(2*members+1) {
					fail("SUNIONSTORE of two sets between which one member is moved back and forth with SMOVE stored %d members, the union always has %d", v.I, 2*members+1)
				}
			case 3:
				if v, err := conn.Do("SINTERCARD", "2", "s1", "s2"); err == nil && v.K == kit.KInt && v.I != 0 {
					fail("SINTERCARD of two sets that never share a member (one member is moved between them with SMOVE) replied %d", v.I)
				}
			default:
				if v, err := conn.Do("EXISTS", "g1", "g2", "g3"); err == nil && v.K == kit.KInt && v.I != 0 && v.I != 3 {
					fail("EXISTS g1 g2 g3 replied %d although the three keys are only ever created (MSET) and removed (DEL) together", v.I)
				}
			}
		})
	}
	wg.Wait()
	select {
	case err := <-errs:
		return err
	default:
	}
	st.ClassN("concurrent-commands", ops*(4+c.Conns/6))
	st.Class("kind:8")
	st.NonTrivial(fmt.Sprintf("%+v", c), c)
	return nil
}

func TestC08B(t *testing.T) {
	kit.Check(t, kit.Prop[C08BCase]{ID: "C08B", Gen: c08BGen, Run: c08BRun})
}
