package props

import (
	"strconv"
	"testing"

	"pgregory.net/rapid"

	"verifharness/kit"
	"verifharness/model"
)

// C03 — list commands behave as Redis for every sequence.

var c03Keys = []string{"l1", "l2", "l3", "str", "h"}
var c03ListKeys = []string{"l1", "l2", "l3"}

func c03Key(t *rapid.T) string {
	// mostly list keys, sometimes a wrong-typed or never-created key
	i := weighted(t, "key", []int{6, 5, 2, 1, 1, 1})
	if i == 5 {
		return "missing"
	}
	return c03Keys[i]
}

func c03Elem(t *rapid.T) string { return pick(t, "elem", "x", "y", "z", "x", "y", "", "zz") }

var c03Ints = []string{"0", "1", "-1", "2", "-2", "3", "-3", "4", "-4", "5", "-5", "6", "-7", "8", "-9", "11", "-12", "12", "13", "-13", "-14",
	"2147483647", "-2147483648", "2147483648", "4294967296", "9223372036854775807", "-9223372036854775807", "-9223372036854775808"}

func c03Int(t *rapid.T) string {
	// small values dominate so that boundaries of short lists are hit
	if rapid.IntRange(0, 9).Draw(t, "big") == 0 {
		return pick(t, "int", c03Ints[21:]...)
	}
	return pick(t, "int", c03Ints[:21]...)
}

func c03Side(t *rapid.T) string { return randCase(t, pick(t, "side", "LEFT", "RIGHT")) }

func c03Step(t *rapid.T) kit.Argv {
	k := c03Key(t)
	switch weighted(t, "cmd", []int{10, 10, 2, 2, 6, 6, 3, 4, 6, 4, 4, 5, 4, 5, 8, 4, 5, 1, 1}) {
	case 0, 1, 2, 3:
		name := pick(t, "push", "LPUSH", "RPUSH", "LPUSH", "RPUSH", "LPUSHX", "RPUSHX")
		n := rapid.IntRange(1, 4).Draw(t, "n")
		a := kit.A(randCase(t, name), k)
		for i := 0; i < n; i++ {
			a = append(a, kit.S(c03Elem(t)))
		}
		return a
	case 4, 5:
		name := pick(t, "pop", "LPOP", "RPOP")
		if rapid.Bool().Draw(t, "withCount") {
			return kit.A(name, k, pick(t, "cnt", "1", "2", "3", "5", "13", "-1", "9223372036854775807", "2147483648"))
		}
		return kit.A(name, k)
	case 6:
		return kit.A("LLEN", k)
	case 7:
		return kit.A("LINDEX", k, c03Int(t))
	case 8:
		return kit.A("LRANGE", k, c03Int(t), c03Int(t))
	case 9:
		return kit.A("LSET", k, c03Int(t), c03Elem(t))
	case 10:
		return kit.A("LINSERT", k, randCase(t, pick(t, "w", "BEFORE", "AFTER")), c03Elem(t), c03Elem(t))
	case 11:
		return kit.A("LREM", k, c03Int(t), c03Elem(t))
	case 12:
		return kit.A("LTRIM", k, c03Int(t), c03Int(t))
	case 13:
		a := kit.A("LPOS", k, c03Elem(t))
		opts := rapid.Permutation([]string{"RANK", "COUNT", "MAXLEN"}).Draw(t, "optorder")
		for _, o := range opts {
			if !rapid.Bool().Draw(t, "has"+o) {
				continue
			}
			var v string
			switch o {
			case "RANK":
				v = pick(t, "rank", "1", "-1", "2", "-2", "3", "-3", "5", "0", "9223372036854775807", "-9223372036854775807")
			case "COUNT":
				v = pick(t, "count", "0", "1", "2", "3", "100", "-1")
			case "MAXLEN":
				v = pick(t, "maxlen", "0", "1", "2", "3", "5", "100", "-1")
			}
			a = append(a, kit.S(randCase(t, o)), kit.S(v))
		}
		return a
	case 14:
		dst := c03Key(t)
		if rapid.IntRange(0, 2).Draw(t, "same") == 0 {
			dst = k
		}
		if rapid.IntRange(0, 3).Draw(t, "rpoplpush") == 0 {
			return kit.A("RPOPLPUSH", k, dst)
		}
		return kit.A("LMOVE", k, dst, c03Side(t), c03Side(t))
	case 15:
		n := rapid.IntRange(1, 3).Draw(t, "nk")
		a := kit.A("LMPOP", strconv.Itoa(n))
		for i := 0; i < n; i++ {
			a = append(a, kit.S(c03Key(t)))
		}
		a = append(a, kit.S(c03Side(t)))
		if rapid.Bool().Draw(t, "cnt") {
			a = append(a, kit.S(randCase(t, "COUNT")), kit.S(pick(t, "c", "1", "2", "3", "13", "0", "-1")))
		}
		return a
	case 16:
		// refill: make a list reach length >= 3 quickly
		a := kit.A("RPUSH", pick(t, "lk", c03ListKeys...))
		for i := rapid.IntRange(3, 8).Draw(t, "n"); i > 0; i-- {
			a = append(a, kit.S(c03Elem(t)))
		}
		return a
	case 17:
		return goneStep(t, k)
	default:
		return kit.A("EXISTS", k)
	}
}

// c03Probe: a structural operation followed at once by commands that walk the list backwards or
// insert at its ends - stale back links and head/tail pointers only show then.
func c03Probe(t *rapid.T) []kit.Argv {
	k := pick(t, "pk", c03ListKeys...)
	var out []kit.Argv
	switch rapid.IntRange(0, 4).Draw(t, "structural") {
	case 0:
		out = append(out, kit.A("LTRIM", k, pick(t, "ts", "1", "2", "3", "-3", "-2"), pick(t, "te", "-1", "-2", "5", "100")))
	case 1:
		out = append(out, kit.A("LPOP", k, pick(t, "pc", "1", "2", "3")))
	case 2:
		out = append(out, kit.A("RPOP", k, pick(t, "pc", "1", "2", "3")))
	case 3:
		out = append(out, kit.A("LREM", k, pick(t, "rc", "1", "-1", "2", "0"), c03Elem(t)))
	default:
		out = append(out, kit.A("LMOVE", k, pick(t, "dst", c03ListKeys...), c03Side(t), c03Side(t)))
	}
	for i := rapid.IntRange(1, 3).Draw(t, "probes"); i > 0; i-- {
		e := c03Elem(t)
		out = append(out, kit.A(pick(t, "probe",
			[]string{"LINSERT", k, "BEFORE", e, "ins"}, []string{"LINSERT", k, "AFTER", e, "ins"}, []string{"LREM", k, pick(t, "nc", "-1", "-2", "-9"), e},
			[]string{"LPOS", k, e, "RANK", pick(t, "nr", "-1", "-2")}, []string{"LPOS", k, e, "RANK", "-1", "COUNT", "0"}, []string{"LINDEX", k, pick(t, "ni", "-1", "-2", "-5", "0")},
			[]string{"LRANGE", k, pick(t, "ra", "-100", "-3", "0"), "-1"}, []string{"RPOP", k, "20"}, []string{"LPOP", k, "20"}, []string{"RPOPLPUSH", k, k}, []string{"LSET", k, "-1", "set"}, []string{"LSET", k, "0", "set"},
		)...))
	}
	return out
}

// c03LposSweep: a list of 3-9 elements over a three-letter alphabet and several LPOS calls whose RANK, COUNT and
// MAXLEN are mostly all present, so that the combinations (backward scan with a length budget, count 0 with a
// rank ...) are met on lists long enough for them to matter.
func c03LposSweep(t *rapid.T) []kit.Argv {
	k := pick(t, "lk", "l1", "l2")
	push := []string{"RPUSH", k}
	for n := rapid.IntRange(3, 9).Draw(t, "len"); n > 0; n-- {
		push = append(push, pick(t, "e", "x", "y", "z"))
	}
	out := []kit.Argv{kit.A("DEL", k), kit.A(push...)}
	for n := rapid.IntRange(3, 6).Draw(t, "calls"); n > 0; n-- {
		a := []string{"LPOS", k, pick(t, "e", "x", "y", "z")}
		for _, o := range rapid.Permutation([]string{"RANK", "COUNT", "MAXLEN"}).Draw(t, "order") {
			if rapid.IntRange(0, 4).Draw(t, "omit") == 0 {
				continue
			}
			switch o {
			case "RANK":
				a = append(a, o, pick(t, "rank", "1", "-1", "2", "-2", "3", "-3"))
			case "COUNT":
				a = append(a, o, pick(t, "count", "0", "1", "2", "5"))
			default:
				a = append(a, o, pick(t, "maxlen", "0", "1", "2", "3", "4", "6", "9", "20"))
			}
		}
		out = append(out, kit.A(a...))
	}
	return out
}

func c03Gen(t *rapid.T) SeqCase {
	steps := []kit.Argv{kit.A("SET", "str", "v"), kit.A("HSET", "h", "f", "v")}
	n := rapid.IntRange(5, 45).Draw(t, "steps")
	for i := 0; i < n; i++ {
		if rapid.IntRange(0, 9).Draw(t, "probe") == 0 {
			steps = append(steps, c03Probe(t)...)
			continue
		}
		if rapid.IntRange(0, 19).Draw(t, "lpos") == 0 {
			steps = append(steps, c03LposSweep(t)...)
			continue
		}
		if rapid.IntRange(0, 14).Draw(t, "gone") == 0 {
			steps = append(steps, afterGone(t, c03Keys, c03Step)...)
			continue
		}
		if rapid.IntRange(0, 19).Draw(t, "retype") == 0 {
			steps = append(steps, afterRetype(t, c03Keys, c03Step)...)
			continue
		}
		steps = append(steps, c03Step(t))
	}
	return SeqCase{Steps: steps}
}

func listLen(db *model.DB, k string) int {
	if o := db.Keys[k]; o != nil && o.T == model.TList {
		return len(o.List)
	}
	return -1
}

func c03Observe(argv []string, before *model.DB, exp model.Exp, st *kit.Stats, flags map[string]int) {
	name := argv[0]
	st.Class("cmd:" + upper(name))
	if exp.IsErr() {
		st.Class("error-replies")
	}
	if len(argv) < 2 {
		return
	}
	n := listLen(before, argv[1])
	if n >= 3 {
		flags["len3"]++
	}
	up := upper(name)
	// boundary-addressing operations
	for i, a := range argv[2:] {
		if up == "LPUSH" || up == "RPUSH" || up == "LPUSHX" || up == "RPUSHX" {
			break
		}
		if up == "LSET" && i > 0 {
			break
		}
		v, err := strconv.ParseInt(a, 10, 64)
		if err != nil || n <= 0 {
			continue
		}
		if v == int64(-n-1) || v == int64(-n) || v == int64(n-1) || v == int64(n) {
			flags["boundary"]++
			st.Class("boundary-index")
		}
	}
	if (up == "LMOVE" || up == "RPOPLPUSH") && len(argv) >= 3 && argv[1] == argv[2] && n >= 1 {
		flags["samelist"]++
		st.Class("move-same-list")
	}
}

func upper(s string) string {
	b := []byte(s)
	for i := range b {
		if b[i] >= 'a' && b[i] <= 'z' {
			b[i] -= 32
		}
	}
	return string(b)
}

func c03Run(c SeqCase, st *kit.Stats) error {
	flags := map[string]int{}
	err := runSeq(c, st, seqHooks{observe: c03Observe}, flags)
	if err == nil && flags["len3"] > 0 && (flags["boundary"] > 0 || flags["samelist"] > 0) {
		st.NonTrivial(c.Canon(), c.Sample())
	}
	return err
}

func TestC03(t *testing.T) {
	kit.Check(t, kit.Prop[SeqCase]{ID: "C03", Gen: c03Gen, Run: c03Run})
}
