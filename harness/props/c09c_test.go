package props

import (
	"fmt"
	"strconv"
	"sync"
	"sync/atomic"
	"testing"
	"time"

	"pgregory.net/rapid"

	"verifharness/kit"
)

// C09 part C — an EXEC held between two of its queued commands (through the emulator's public dispatch
// hook) is invisible and impenetrable for every other connection.
//
// Connection B runs MULTI / SET k0 r / ... / SET k(n-1) r / EXEC in database dbB; the hook stops the EXEC
// before its h-th queued command. While it is stopped, 1-4 other connections issue a drawn command or
// transaction that touches dbB - from dbB itself or from another database through SELECT inside MULTI,
// FLUSHALL. None of them may complete before B's EXEC is released; afterwards all complete and
// every read sees all of B's writes. How many commands each database handled before the EXECs is part of
// the case (pads): command ids are per database, so equal counts in two databases are a state of their own.

type C09CIntruder struct {
	Kind  int `json:"kind"`
	Home  int `json:"home"`  // database the intruder has selected (kinds that come from elsewhere)
	Delta int `json:"delta"` // PINGs added to (or left out of) the padding that equalises the command counts
}

type C09CCase struct {
	DB        int            `json:"db"`
	N         int            `json:"n"`
	HoldAt    int            `json:"hold_at"`
	BPad      int            `json:"b_pad"`
	Intruders []C09CIntruder `json:"intruders"`
}

var c09CKinds = []string{"GET", "MGET", "SET", "MULTI-GETs-EXEC", "MULTI-SELECT-GETs-EXEC from another db", "MULTI-SELECT-SET-EXEC from another db", "MULTI-SELECT-DBSIZE-EXEC from another db", "FLUSHALL from another db", "DBSIZE", "RENAME", "KEYS"}

func c09CGen(t *rapid.T) C09CCase {
	c := C09CCase{DB: pick(t, "db", 1, 2, 5), N: rapid.IntRange(2, 6).Draw(t, "n"), BPad: rapid.IntRange(0, 6).Draw(t, "bpad")}
	c.HoldAt = rapid.IntRange(1, c.N-1).Draw(t, "hold")
	for i := rapid.IntRange(1, 4).Draw(t, "intruders"); i > 0; i-- {
		c.Intruders = append(c.Intruders, C09CIntruder{Kind: weighted(t, "kind", []int{2, 2, 2, 2, 5, 3, 2, 1, 1, 1, 1}), Home: pick(t, "home", 0, 7, 9), Delta: pick(t, "delta", 0, 0, 0, 0, -1, 1, 2)})
	}
	return c
}

func c09CRun(c C09CCase, st *kit.Stats) error {
	emu := kit.StartEmu("")
	defer emu.Stop()
	var countdown atomic.Int32
	countdown.Store(-1)
	held, release := make(chan struct{}), make(chan struct{})
	var relOnce sync.Once
	doRelease := func() { relOnce.Do(func() { close(release) }) }
	defer doRelease()
	emu.E.SetHook(func(cmd string, args map[string]any) (bool, any, error) {
		if cmd == "set" && countdown.Load() >= 0 {
			if countdown.Add(-1) == -1 {
				close(held)
				<-release
			}
		}
		return false, nil, nil
	})
	defer emu.E.SetHook(nil)

	cnt := map[int]int{} // commands dispatched per database (every command counts for the sender's current database)
	cur := map[*kit.Conn]int{}
	do := func(cn *kit.Conn, a ...string) (kit.Value, error) {
		cnt[cur[cn]]++
		v, err := cn.Do(a...)
		if a[0] == "SELECT" && err == nil && !v.IsErr() {
			cur[cn], _ = strconv.Atoi(a[1])
		}
		return v, err
	}
	db := strconv.Itoa(c.DB)
	key := func(i int) string { return "k" + strconv.Itoa(i) }
	b := emu.Dial()
	do(b, "SELECT", db)
	for i := 0; i < c.BPad; i++ {
		do(b, "PING")
	}
	do(b, "MULTI")
	for i := 0; i < c.N; i++ {
		do(b, "SET", key(i), "r")
	}
	execID := cnt[c.DB] + 1

	// intruders: connect and prepare
	type intr struct {
		C09CIntruder
		cn    *kit.Conn
		last  []string
		reply kit.Value
		err   error
		early bool
	}
	ins := make([]*intr, len(c.Intruders))
	for i, spec := range c.Intruders {
		x := &intr{C09CIntruder: spec, cn: emu.Dial()}
		ins[i] = x
		st.Class("intruder:" + c09CKinds[spec.Kind])
		away := spec.Kind >= 4 && spec.Kind <= 7
		if away {
			if spec.Home != 0 {
				do(x.cn, "SELECT", strconv.Itoa(spec.Home))
			}
		} else {
			do(x.cn, "SELECT", db)
		}
	}
	// B's EXEC goes out and is stopped before its HoldAt-th queued command
	countdown.Store(int32(c.HoldAt))
	cnt[c.DB]++
	b.Write(kit.EncodeCmd("EXEC"))
	select {
	case <-held:
	case <-time.After(5 * time.Second):
		return fmt.Errorf("harness: EXEC never reached its queued command %d", c.HoldAt)
	}
	var wg sync.WaitGroup
	for _, x := range ins {
		var pre [][]string
		switch x.Kind {
		case 0:
			x.last = []string{"GET", key(c.N - 1)}
		case 1:
			x.last = []string{"MGET"}
			for i := 0; i < c.N; i++ {
				x.last = append(x.last, key(i))
			}
		case 2:
			x.last = []string{"SET", key(c.N - 1), "intruder"}
		case 3, 4:
			pre = [][]string{{"MULTI"}}
			if x.Kind == 4 {
				pre = append(pre, []string{"SELECT", db})
			}
			pre = append(pre, []string{"GET", key(0)}, []string{"GET", key(c.N - 1)})
			x.last = []string{"EXEC"}
		case 5:
			pre = [][]string{{"MULTI"}, {"SELECT", db}, {"APPEND", key(c.N - 1), "+intruder"}}
			x.last = []string{"EXEC"}
		case 6:
			pre = [][]string{{"MULTI"}, {"SELECT", db}, {"DBSIZE"}, {"EXISTS", key(0), key(c.N - 1)}}
			x.last = []string{"EXEC"}
		case 7:
			x.last = []string{"FLUSHALL"}
		case 8:
			x.last = []string{"DBSIZE"}
		case 9:
			x.last = []string{"RENAME", key(0), "renamed"}
		default:
			x.last = []string{"KEYS", "*"}
		}
		if x.Kind >= 4 && x.Kind <= 6 {
			// pad so that this EXEC is the execID-th command of its own database (+ Delta)
			pad := execID + x.Delta - (cnt[cur[x.cn]] + len(pre) + 1)
			for ; pad > 0; pad-- {
				do(x.cn, "PING")
			}
			if cnt[cur[x.cn]]+len(pre)+1 == execID {
				st.Class("command-counts-of-both-databases-equal-at-EXEC")
			}
		}
		for _, p := range pre {
			cnt[cur[x.cn]]++
			if v, err := x.cn.Do(p...); err != nil || v.IsErr() {
				return fmt.Errorf("intruder %v: %v %v", p, v, err)
			}
		}
		cnt[cur[x.cn]]++
		x.cn.Write(kit.EncodeCmd(x.last...))
		time.Sleep(500 * time.Microsecond) // let the server number this command before the next intruder's commands arrive
	}
	for _, x := range ins {
		wg.Add(1)
		go func(x *intr) {
			defer wg.Done()
			v, err := x.cn.Read(120 * time.Millisecond)
			if err == nil {
				x.early, x.reply = true, v
				return
			}
			if err != kit.ErrTimeout {
				x.err = err
			}
		}(x)
	}
	wg.Wait()
	doRelease()
	bv, err := b.Read(5 * time.Second)
	if err != nil || bv.K != kit.KArr || len(bv.A) != c.N {
		return fmt.Errorf("B's EXEC replied %v %v", bv, err)
	}
	for _, x := range ins {
		desc := fmt.Sprintf("%s (home database %d, delta %d)", c09CKinds[x.Kind], cur[x.cn], x.Delta)
		if x.err != nil {
			return fmt.Errorf("intruder %s: %v", desc, x.err)
		}
		if x.early {
			return fmt.Errorf("while the EXEC of another connection on database %d was stopped between its queued commands %d and %d (of %d), %s completed with %s: it ran in the middle of the transaction", c.DB, c.HoldAt, c.HoldAt+1, c.N, desc, x.reply)
		}
		v, err := x.cn.Read(5 * time.Second)
		if err != nil {
			return fmt.Errorf("intruder %s did not complete after the EXEC was released: %v", desc, err)
		}
		x.reply = v
	}
	st.Class("held-exec")
	st.NonTrivial(fmt.Sprintf("%+v", c), c)
	return nil
}

func TestC09C(t *testing.T) {
	kit.Check(t, kit.Prop[C09CCase]{ID: "C09C", Gen: c09CGen, Run: c09CRun})
}
