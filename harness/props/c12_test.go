//go:build verif

package props

import (
	"fmt"
	"strconv"
	"strings"
	"testing"
	"time"

	"pgregory.net/rapid"

	"verifharness/kit"
	"verifharness/model"
)

// C12 — blocking commands end correctly: timeout, CLIENT UNBLOCK, disconnect, MULTI.
//
// Part A (schedule points): the target client is parked at a chosen point of the block protocol,
// one or two stimuli are delivered, everything is released, and only *consequences* are asserted:
//   CLIENT UNBLOCK replied 1  =>  the pending blocking command ends (nil / UNBLOCKED error, or an
//                                 element if one was available) without any further push;
//   CLIENT UNBLOCK replied 0  =>  the target is untouched (still blocked until served);
//   unknown id / idle client   =>  0;
//   killed or disconnected     =>  never consumes: a later push stays in the list (or goes to a live waiter);
//   afterwards the connection (if alive) answers PING and can block again.

type C12Case struct {
	Cmd    kit.Argv `json:"cmd"`
	Point  int      `json:"point"`  // 0 before-register 1 after-register 2 before-capture 3 before-wait 4 asleep 5 woken 6 woken, element stolen
	Stim   []int    `json:"stim"`   // 0 UNBLOCK 1 UNBLOCK TIMEOUT 2 UNBLOCK ERROR 3 KILL ID 4 client closes socket 5 push 6 UNBLOCK unknown id 7 UNBLOCK idle client
	Second bool     `json:"second"` // a second live client waits behind the target
	Cycles int      `json:"cycles"`
}

var c12Points = []string{"before-register", "after-register", "before-capture", "before-wait", "asleep", "woken", "woken-stolen", "asleep-again-after-a-wake-up-for-nothing"}
var c12Stims = []string{"UNBLOCK", "UNBLOCK-TIMEOUT", "UNBLOCK-ERROR", "KILL", "CLOSE", "PUSH", "UNBLOCK-unknown-id", "UNBLOCK-idle-client"}

func c12Gen(t *rapid.T) C12Case {
	c := C12Case{
		Point:  rapid.IntRange(0, 7).Draw(t, "point"),
		Second: rapid.IntRange(0, 2).Draw(t, "second") == 0,
		Cycles: rapid.IntRange(1, 3).Draw(t, "cycles"),
	}
	c.Cmd = kit.A(pick(t, "cmd", []string{"BLPOP", "q1", "0"}, []string{"BRPOP", "q1", "q2", "0"}, []string{"BLMOVE", "q1", "out", "LEFT", "RIGHT", "0"},
		[]string{"BRPOPLPUSH", "q1", "out", "0"}, []string{"BLMPOP", "0", "1", "q1", "LEFT"})...)
	n := rapid.IntRange(1, 2).Draw(t, "nstim")
	for i := 0; i < n; i++ {
		c.Stim = append(c.Stim, weighted(t, "stim", []int{3, 2, 3, 3, 2, 2, 1, 1}))
	}
	return c
}

// c12Release lets the target proceed by one step and reports where it is afterwards.
func (s *sched) c12Release(b *blocker, expectWake bool) (rep *schedReply, err error) {
	from := b.point
	if from == "woke-ready" {
		b.token = false // the wake-up is consumed by the retry that follows
	}
	b.state = "running"
	b.resumeCh <- struct{}{}
	s.logf("release c%d from %s", b.idx, from)
	if from == "before-wait" && !expectWake && !b.token {
		b.state = "select"
		return nil, nil
	}
	_, rep, err = s.await(b)
	return rep, err
}

func (s *sched) unblockPosted(id int64) bool {
	s.mu.Lock()
	defer s.mu.Unlock()
	for _, x := range s.posted {
		if x == id {
			return true
		}
	}
	return false
}

func c12Run(c C12Case, st *kit.Stats) (err error) {
	nb := 1
	if c.Second {
		nb = 2
	}
	s, err := newSched(st, nb)
	if err != nil {
		return err
	}
	defer s.close()
	defer func() {
		if err != nil {
			err = fmt.Errorf("%v\nschedule:\n%s", err, strings.Join(s.log, "\n"))
		}
	}()
	admin := s.emu.Dial()
	ase := model.NewSession(100)
	s.sess = append(s.sess, ase)
	idle := s.emu.Dial() // a connected client that never blocks
	iv, _ := idle.Do("CLIENT", "ID")
	b0 := s.blockers[0]
	elem := 0
	push := func(key string) (string, error) {
		e := "x" + strconv.Itoa(elem)
		elem++
		return e, s.atomic(admin, ase, []string{"RPUSH", key, e})
	}
	st.Class("point:" + c12Points[c.Point])
	for cycle := 0; cycle < c.Cycles; cycle++ {
		s.mu.Lock()
		s.posted, s.dropped = nil, nil
		s.mu.Unlock()
		argv := c.Cmd.Strs()
		if err := s.start(b0, argv); err != nil {
			return err
		}
		if b0.state != "parked" {
			return fmt.Errorf("the list is empty, the command must block")
		}
		// drive the target to the chosen point
		want := c12Points[c.Point]
		if c.Point >= 4 {
			want = "asleep"
		}
		for i := 0; i < 6 && !(b0.state == "parked" && b0.point == want) && b0.state != "select"; i++ {
			if err := s.resume(b0); err != nil {
				return err
			}
		}
		if c.Second && cycle == 0 {
			b1 := s.blockers[1]
			if err := s.start(b1, []string{"BLPOP", "q1", "0"}); err != nil {
				return err
			}
			for i := 0; i < 6 && b1.state == "parked"; i++ {
				if err := s.resume(b1); err != nil {
					return err
				}
			}
		}
		available := false // an element is (still) there for the target when it retries
		if c.Point >= 5 {
			if _, err := push("q1"); err != nil {
				return err
			}
			available = true
			if c.Point >= 6 {
				if err := s.atomic(admin, ase, []string{"LPOP", "q1"}); err != nil {
					return err
				}
				available = false
			}
			if c.Point == 7 {
				// the target retries, finds nothing, registers again and goes back to sleep
				for i := 0; i < 10 && !(b0.state == "parked" && b0.point == "asleep") && b0.state != "select" && b0.state != "idle"; i++ {
					if err := s.resume(b0); err != nil {
						return err
					}
				}
				if b0.state == "idle" {
					return fmt.Errorf("the target completed although its element had been taken")
				}
			}
		}
		// stimuli
		ended := ""   // "" | "unblock" | "dead"
		flavour := "" // nil / error expected from the first effective unblock
		pushed := false
		for _, stim := range c.Stim {
			st.Class("stimulus:" + c12Stims[stim] + "@" + c12Points[c.Point])
			switch stim {
			case 0, 1, 2, 6, 7:
				a := []string{"CLIENT", "UNBLOCK", strconv.FormatInt(b0.id, 10)}
				if stim == 1 {
					a = append(a, "TIMEOUT")
				}
				if stim == 2 {
					a = append(a, "ERROR")
				}
				if stim == 6 {
					a[2] = "987654321"
				}
				if stim == 7 {
					a[2] = strconv.FormatInt(iv.I, 10)
				}
				v, err := admin.Do(a...)
				if err != nil {
					return fmt.Errorf("%v: %v", a, err)
				}
				s.logf("admin %v -> %s", a, v)
				if v.K != kit.KInt || (v.I != 0 && v.I != 1) {
					return fmt.Errorf("%v replied %s", a, v)
				}
				if stim >= 6 {
					if v.I != 0 {
						return fmt.Errorf("%v replied 1 for a client that is not blocked / does not exist", a)
					}
					continue
				}
				if ended == "dead" {
					continue // replies about a killed/closed client are not constrained
				}
				if v.I == 1 && ended == "" {
					ended = "unblock"
					flavour = "nil"
					if stim == 2 {
						flavour = "error"
					}
				}
			case 3:
				a := []string{"CLIENT", "KILL", "ID", strconv.FormatInt(b0.id, 10)}
				v, err := admin.Do(a...)
				if err != nil {
					return fmt.Errorf("%v: %v", a, err)
				}
				s.logf("admin %v -> %s", a, v)
				if ended != "dead" && !kit.Equal(v, kit.Int(1)) {
					return fmt.Errorf("%v replied %s, expected 1", a, v)
				}
				if ended == "" || ended == "unblock" {
					ended = "dead"
				}
			case 4:
				if kit.KF("KF-C12-CLOSE") {
					st.Exclude("KF-C12-CLOSE")
					continue
				}
				b0.conn.Close()
				s.logf("target closes its socket")
				ended = "dead"
			case 5:
				if ended == "dead" {
					continue
				}
				// raw push: the wake-up bookkeeping of C11 does not apply once unblock signals are in play
				e := "x" + strconv.Itoa(elem)
				elem++
				n := nowMs()
				v, err := admin.Do("RPUSH", "q1", e)
				if err != nil || v.IsErr() {
					return fmt.Errorf("RPUSH: %v %v", v, err)
				}
				s.srv.Exec(s.sess, ase, []string{"RPUSH", "q1", e}, model.Time{Lo: n, Hi: n})
				s.logf("admin RPUSH q1 %s -> %s", e, v)
				s.mu.Lock()
				wakes := s.wakes
				s.wakes = nil
				s.mu.Unlock()
				for _, ws := range wakes {
					for _, b := range s.blockers {
						if b.wsid == ws && b.state != "idle" {
							b.token = true
							s.unregister(b)
						}
					}
				}
				pushed = true
			}
		}
		// release everything
		var rep *schedReply
		closedByClient := false
		for _, x := range c.Stim {
			if x == 4 {
				closedByClient = true
			}
		}
		expectWake := s.unblockPosted(b0.id)
		if b0.state == "select" && (expectWake || b0.token) {
			// asleep and an unblock signal was posted: it surfaces at woke-unblock (or completes)
			if _, r, err := s.await(b0); err != nil {
				return err
			} else if r != nil {
				rep = r
			}
		}
		for i := 0; i < 12 && b0.state == "parked"; i++ {
			r, err := s.c12Release(b0, expectWake || (ended == "dead" && !closedByClient))
			if err != nil {
				return err
			}
			if r != nil {
				rep = r
			}
		}
		if rep == nil && b0.state == "idle" {
			return fmt.Errorf("internal: target idle without a reply")
		}
		// what the model says the target could have consumed
		servedPossible := available || pushed
		switch ended {
		case "unblock":
			if b0.state != "idle" {
				return fmt.Errorf("CLIENT UNBLOCK replied 1 but the target is still blocked (state %s at %s)", b0.state, b0.point)
			}
			if rep.err != nil {
				return fmt.Errorf("target connection failed: %v", rep.err)
			}
			isNil := rep.v.K == kit.KNil
			isUnbl := rep.v.IsErr() && rep.v.ErrClass() == "UNBLOCKED"
			switch {
			case isNil || isUnbl:
				both := false
				for _, x := range c.Stim {
					if (flavour == "nil" && x == 2) || (flavour == "error" && (x == 0 || x == 1)) {
						both = true
					}
				}
				if !both && ((flavour == "nil") != isNil) {
					return fmt.Errorf("unblocked with flavour %s but the command replied %s", flavour, rep.v)
				}
				st.Class("ended-by-unblock")
			case servedPossible && !rep.v.IsErr():
				// it got an element instead: the block ended as well; resynchronise the model
				s.resyncLists(admin)
				st.Class("ended-by-element")
			default:
				return fmt.Errorf("after CLIENT UNBLOCK the command replied %s", rep.v)
			}
		case "dead":
			st.Class("target-killed-or-closed")
			// let any remaining parks of the dead client's goroutine drain
			for i := 0; i < 30; i++ {
				select {
				case p := <-b0.parkCh:
					b0.point = p
					b0.resumeCh <- struct{}{}
				case <-time.After(3 * time.Millisecond):
					i += 9
				}
			}
			s.unregister(b0)
			b0.state, b0.token = "dead", false
			s.resyncLists(admin)
			// a later push must not be consumed by the dead client
			before := listOf(s.srv, "q1")
			e, err := admin.Do("RPUSH", "q1", "after-death")
			if err != nil || e.IsErr() {
				return fmt.Errorf("RPUSH after death: %v %v", e, err)
			}
			// a goroutine of the dead client that was woken by this push must be allowed to run on
			for i := 0; i < 40; i++ {
				select {
				case p := <-b0.parkCh:
					b0.point = p
					s.logf("  dead c0 parked at %s, released", p)
					b0.resumeCh <- struct{}{}
				case <-time.After(3 * time.Millisecond):
					i += 9
				}
			}
			survivorGot := false
			if c.Second {
				b1 := s.blockers[1]
				select {
				case p := <-b1.parkCh:
					// the live waiter was woken: let it take the element
					b1.state, b1.point = "parked", p
					for i := 0; i < 6 && b1.state == "parked"; i++ {
						r, err := s.c12Release(b1, false)
						if err != nil {
							return err
						}
						if r != nil && r.err == nil && r.v.K == kit.KArr {
							survivorGot = true
						}
					}
				default:
				}
			}
			v, err := admin.Do("LRANGE", "q1", "0", "-1")
			if err != nil {
				return err
			}
			got, _ := v.Strings()
			if !survivorGot && len(got) != len(before)+1 {
				return fmt.Errorf("a client that was killed / had closed its socket still consumed: list q1 was %v, after RPUSH after-death it is %v and no live client received the element", before, got)
			}
			return nil // the connection is gone: no further cycles
		default:
			// nobody ended the block: the target must still be blocked unless an element was there
			if b0.state == "idle" {
				if !servedPossible || rep.err != nil || rep.v.IsErr() || rep.v.K == kit.KNil {
					return fmt.Errorf("no unblock was acknowledged, nothing was pushed, yet the blocking command ended with %v", rep)
				}
				s.resyncLists(admin)
				st.Class("served-by-push")
			} else {
				st.Class("still-blocked")
				// serve it now
				if c.Second {
					// the other waiter may be first in line; push two
					if _, err := push("q1"); err != nil {
						return err
					}
				}
				if _, err := push("q1"); err != nil {
					return err
				}
				for i := 0; i < 12 && b0.state == "parked"; i++ {
					if err := s.resume(b0); err != nil {
						return err
					}
				}
				if c.Second {
					b1 := s.blockers[1]
					for i := 0; i < 12 && b1.state == "parked"; i++ {
						if err := s.resume(b1); err != nil {
							return err
						}
					}
				}
				if b0.state != "idle" {
					return fmt.Errorf("target still blocked after being served (state %s %s)", b0.state, b0.point)
				}
			}
		}
		// the connection processes further commands normally
		v, err := b0.conn.Do("PING")
		if err != nil || !kit.Equal(v, kit.Simple("PONG")) {
			return fmt.Errorf("after the block ended, PING on the same connection replied %v %v", v, err)
		}
		if _, err := admin.Do("DEL", "q1", "q2", "out"); err != nil {
			return err
		}
		s.resyncLists(admin)
		if c.Second && s.blockers[1].state != "idle" {
			// get the second waiter out of the way for the next cycle
			if _, err := push("q1"); err != nil {
				return err
			}
			b1 := s.blockers[1]
			for i := 0; i < 12 && b1.state == "parked"; i++ {
				if err := s.resume(b1); err != nil {
					return err
				}
			}
			admin.Do("DEL", "q1", "q2", "out")
			s.resyncLists(admin)
			c.Second = false
		}
	}
	// whatever happened to the blocked clients: when all of it is over, a fresh client that blocks on the same
	// key is served by the next push (nothing that has finished is left in the wait queue in front of it)
	if !kit.KF("KF-C12-CLOSE") || !c12Closes(c) {
		probe := s.emu.Dial()
		probe.Write(kit.EncodeCmd("BLPOP", "q1", "0"))
		time.Sleep(3 * time.Millisecond)
		if v, err := admin.Do("RPUSH", "q1", "for-the-probe"); err != nil || v.IsErr() {
			return fmt.Errorf("RPUSH for the probe: %v %v", v, err)
		}
		pv, perr := probe.Read(3 * time.Second)
		if perr != nil {
			lv, _ := admin.Do("LRANGE", "q1", "0", "-1")
			return fmt.Errorf("after all blocks had ended, a fresh client blocked in BLPOP q1 0 and one element was pushed: the client was not served within 3 s (%v); the list holds %s", perr, lv)
		}
		if pv.K != kit.KArr || len(pv.A) != 2 || pv.A[1].S != "for-the-probe" {
			return fmt.Errorf("the fresh waiter got %s", pv)
		}
		probe.Close()
	}
	nt := c.Point != 4 || len(c.Stim) >= 2
	if nt {
		st.NonTrivial(fmt.Sprintf("%v|%d|%v|%v|%d", c.Cmd, c.Point, c.Stim, c.Second, c.Cycles), map[string]any{"cmd": c.Cmd.String(), "point": c12Points[c.Point], "stimuli": stimNames(c.Stim), "second_waiter": c.Second, "cycles": c.Cycles})
	}
	return nil
}

// c12Closes: the case lets a blocked client's socket be closed by its peer (open finding KF-C12-CLOSE: such a
// client stays registered and takes the next element).
func c12Closes(c C12Case) bool {
	for _, s := range c.Stim {
		if s == 4 {
			return true
		}
	}
	return false
}

func stimNames(x []int) []string {
	var out []string
	for _, i := range x {
		out = append(out, c12Stims[i])
	}
	return out
}

func listOf(srv *model.Server, k string) []string {
	if o := srv.DBs[0].Keys[k]; o != nil {
		return append([]string(nil), o.List...)
	}
	return nil
}

// resyncLists re-reads the contended lists into the model after an outcome the property leaves open
// (element or unblock, whichever came first).
func (s *sched) resyncLists(c *kit.Conn) {
	for _, k := range []string{"q1", "q2", "out"} {
		v, err := c.Do("LRANGE", k, "0", "-1")
		if err != nil {
			continue
		}
		l, _ := v.Strings()
		if len(l) == 0 {
			delete(s.srv.DBs[0].Keys, k)
		} else {
			s.srv.DBs[0].Keys[k] = &model.Obj{T: model.TList, List: l}
		}
	}
}

func TestC12(t *testing.T) {
	kit.Check(t, kit.Prop[C12Case]{ID: "C12", Gen: c12Gen, Run: c12Run})
}
