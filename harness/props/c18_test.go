package props

import (
	"fmt"
	"math"
	"math/big"
	"strconv"
	"strings"
	"sync"
	"testing"

	"pgregory.net/rapid"

	"verifharness/kit"
	"verifharness/model"
)

// C18 — bitmap commands are bit-exact for all offsets, widths, ranges and overflows.
//
// The generator runs the reference model alongside (a pure function of the rapid draws) so that it
// knows the current length and contents of every key: ranges are drawn relative to the real length and
// INCRBY increments are aimed at the overflow boundaries of the value currently stored.

var c18Keys = []string{"a", "a", "a", "b", "b", "c", "missing", "lst"}

var c18GenTime = model.Time{Lo: 1, Hi: 1}

const c18FarFuture = "4102444800000"

type c18Type struct {
	signed bool
	w      int
}

func (ty c18Type) str(t *rapid.T) string {
	l := "u"
	if ty.signed {
		l = "i"
	}
	if rapid.IntRange(0, 47).Draw(t, "uctype") == 29 {
		l = strings.ToUpper(l)
	}
	return l + strconv.Itoa(ty.w)
}

func (ty c18Type) plain() string {
	if ty.signed {
		return "i" + strconv.Itoa(ty.w)
	}
	return "u" + strconv.Itoa(ty.w)
}

func (ty c18Type) limits() (min, max *big.Int) {
	one := big.NewInt(1)
	if ty.signed {
		p := new(big.Int).Lsh(one, uint(ty.w-1))
		return new(big.Int).Neg(p), new(big.Int).Sub(p, one)
	}
	return new(big.Int), new(big.Int).Sub(new(big.Int).Lsh(one, uint(ty.w)), one)
}

// clamp64 squeezes v into int64.
func clamp64(v *big.Int) int64 {
	if v.IsInt64() {
		return v.Int64()
	}
	if v.Sign() < 0 {
		return math.MinInt64
	}
	return math.MaxInt64
}

// c18Cell draws one cell of the sweep (offset mod 8) x (i1..i64, u1..u63): 8 x 127 cells, uniformly.
func c18Cell(t *rapid.T) (int, c18Type) {
	idx := rapid.IntRange(0, 8*127-1).Draw(t, "cell")
	m, k := idx%8, idx/8
	if k < 64 {
		return m, c18Type{true, k + 1}
	}
	return m, c18Type{false, k - 63}
}

func c18Len(db *model.DB, key string) int {
	if o := db.Keys[key]; o != nil && o.T == model.TString {
		return len(o.Str)
	}
	return 0
}

// c18Field reads the field through the model's public interface.
func c18Field(db *model.DB, key string, ty string, off int64) (int64, bool) {
	e := db.Clone().Exec([]string{"BITFIELD", key, "GET", ty, strconv.FormatInt(off, 10)}, c18GenTime)
	if e.Kind != model.EVal || e.V.K != kit.KArr || len(e.V.A) != 1 || e.V.A[0].K != kit.KInt {
		return 0, false
	}
	return e.V.A[0].I, true
}

var c18HugeOffsets = []string{"4294967296", "1099511627776", "9223372036854775807", "-1", "-8", "-9223372036854775808",
	"#-1", "#1099511627776", "#9223372036854775807", "abc", "", "#", "1.5"}

// c18Offset draws a BITFIELD offset argument; the numeric bit offset is returned when it is a small valid one.
func c18Offset(t *rapid.T, db *model.DB, key string, m int, ty c18Type) (string, int64, bool) {
	L := c18Len(db, key)
	switch weighted(t, "offkind", []int{70, 12, 10, 4}) {
	case 0:
		bo := rapid.IntRange(0, L+1).Draw(t, "byteoff")
		off := int64(bo*8 + m)
		return strconv.FormatInt(off, 10), off, true
	case 1:
		n := rapid.IntRange(0, (8*L+16)/ty.w+1).Draw(t, "hashn")
		return "#" + strconv.Itoa(n), int64(n * ty.w), true
	case 2:
		off := int64(rapid.IntRange(0, 4096/8).Draw(t, "farbyte")*8 + m)
		if off > 4096 {
			off = 4096
		}
		return strconv.FormatInt(off, 10), off, true
	}
	return pick(t, "hugeoff", c18HugeOffsets...), 0, false
}

// c18SetValue draws from {0, +-1, min, max, min-1, max+1, random}.
func c18SetValue(t *rapid.T, ty c18Type) int64 {
	min, max := ty.limits()
	one := big.NewInt(1)
	switch rapid.IntRange(0, 9).Draw(t, "valkind") {
	case 0:
		return 0
	case 1:
		return 1
	case 2:
		return -1
	case 3:
		return clamp64(min)
	case 4:
		return clamp64(max)
	case 5:
		return clamp64(new(big.Int).Sub(min, one))
	case 6:
		return clamp64(new(big.Int).Add(max, one))
	case 7:
		return rapid.Int64().Draw(t, "rnd64")
	case 8:
		return pick(t, "ext", int64(math.MinInt64), int64(math.MaxInt64), int64(math.MinInt64+1), int64(math.MaxInt64-1))
	}
	// random value inside the type's range
	lo, hi := clamp64(min), clamp64(max)
	return rapid.Int64Range(lo, hi).Draw(t, "inrange")
}

// c18IncrValue aims at the boundaries of the value currently stored.
func c18IncrValue(t *rapid.T, ty c18Type, cur int64, known bool) int64 {
	if !known || rapid.IntRange(0, 2).Draw(t, "incrplain") == 0 {
		return c18SetValue(t, ty)
	}
	min, max := ty.limits()
	c := big.NewInt(cur)
	upTo := new(big.Int).Sub(max, c)
	downTo := new(big.Int).Sub(min, c)
	one := big.NewInt(1)
	switch rapid.IntRange(0, 6).Draw(t, "incrkind") {
	case 0:
		return clamp64(upTo)
	case 1:
		return clamp64(new(big.Int).Add(upTo, one))
	case 2:
		return clamp64(downTo)
	case 3:
		return clamp64(new(big.Int).Sub(downTo, one))
	case 4:
		return clamp64(new(big.Int).Sub(upTo, one))
	case 5:
		return clamp64(new(big.Int).Add(downTo, one))
	}
	return int64(rapid.IntRange(-3, 3).Draw(t, "smallincr"))
}

func c18Overflow(t *rapid.T) []string {
	return []string{randCase(t, "OVERFLOW"), randCase(t, pick(t, "ow", "WRAP", "SAT", "FAIL"))}
}

// c18Bitfield draws BITFIELD key with 1-5 sub-operations mixing GET/SET/INCRBY and OVERFLOW switches.
func c18Bitfield(t *rapid.T, db *model.DB, key string) []string {
	a := []string{randCase(t, "BITFIELD"), key}
	n := rapid.IntRange(1, 5).Draw(t, "nops")
	var lastOff string
	var lastTy string
	for i := 0; i < n; i++ {
		m, ty := c18Cell(t)
		tys := ty.str(t)
		offs, off, small := c18Offset(t, db, key, m, ty)
		// now and then address the field of the previous sub-operation again (read back / increment what was set)
		if lastOff != "" && rapid.IntRange(0, 3).Draw(t, "again") == 0 {
			offs, tys, small = lastOff, lastTy, false
		}
		switch weighted(t, "subop", []int{3, 4, 5}) {
		case 0:
			if rapid.IntRange(0, 59).Draw(t, "owget") == 31 {
				a = append(a, c18Overflow(t)...) // OVERFLOW in front of a GET only matters for the writes after it
			}
			a = append(a, randCase(t, "GET"), tys, offs)
		case 1:
			if rapid.Bool().Draw(t, "owsw") {
				a = append(a, c18Overflow(t)...)
			}
			a = append(a, randCase(t, "SET"), tys, offs, strconv.FormatInt(c18SetValue(t, ty), 10))
		default:
			if rapid.Bool().Draw(t, "owsw") {
				a = append(a, c18Overflow(t)...)
			}
			cur, known := int64(0), false
			if small {
				cur, known = c18Field(db, key, ty.plain(), off)
			}
			a = append(a, randCase(t, "INCRBY"), tys, offs, strconv.FormatInt(c18IncrValue(t, ty, cur, known), 10))
		}
		lastOff, lastTy = offs, tys
	}
	if rapid.IntRange(0, 59).Draw(t, "owtail") == 37 {
		a = append(a, c18Overflow(t)...) // trailing OVERFLOW: valid, no effect
	}
	return a
}

// c18BoundaryCombo: SET a boundary value, then INCRBY a small amount across it under a chosen overflow mode,
// then read the field back.
func c18BoundaryCombo(t *rapid.T, db *model.DB, key string) []string {
	m, ty := c18Cell(t)
	offs, _, _ := c18Offset(t, db, key, m, ty)
	min, max := ty.limits()
	base := clamp64(pick(t, "edge", min, max))
	base += int64(rapid.IntRange(-1, 1).Draw(t, "edgeadj"))
	tys := ty.plain()
	a := []string{"BITFIELD", key, "SET", tys, offs, strconv.FormatInt(base, 10)}
	a = append(a, c18Overflow(t)...)
	a = append(a, "INCRBY", tys, offs, strconv.Itoa(rapid.IntRange(-2, 2).Draw(t, "step")), "GET", tys, offs)
	return a
}

func c18BitfieldRO(t *rapid.T, db *model.DB, key string) []string {
	a := []string{randCase(t, "BITFIELD_RO"), key}
	n := rapid.IntRange(1, 4).Draw(t, "nro")
	for i := 0; i < n; i++ {
		m, ty := c18Cell(t)
		offs, _, _ := c18Offset(t, db, key, m, ty)
		a = append(a, randCase(t, "GET"), ty.str(t), offs)
	}
	if rapid.IntRange(0, 9).Draw(t, "rowrite") == 5 {
		a = append(a, pick(t, "rowr", "SET", "INCRBY"), "u4", "0", "1")
	}
	return a
}

// c18RangeArgs draws [start [end [BYTE|BIT]]] for BITCOUNT/BITPOS relative to the key's real length.
func c18RangeArgs(t *rapid.T, L int, needBoth bool) []string {
	form := weighted(t, "rangeform", []int{2, 2, 4, 3, 6}) // none, start, start end, start end BYTE, start end BIT
	if needBoth && form == 1 {
		form = 2
	}
	idx := func(label string, bit bool) string {
		if rapid.IntRange(0, 11).Draw(t, "huge") == 0 {
			// indexes whose conversion between bytes and bits overflows 64 bits
			return pick(t, label+"huge", "1152921504606846975", "1152921504606846976", "2305843009213693952", "4611686018427387904", "9223372036854775807",
				"-1152921504606846976", "-2305843009213693953", "-4611686018427387905", "-9223372036854775808", "4294967296", "-4294967297")
		}
		lim := 8*L + 3
		if !bit && rapid.IntRange(0, 3).Draw(t, "narrow") > 0 {
			lim = L + 3
		}
		return strconv.Itoa(rapid.IntRange(-lim, lim).Draw(t, label))
	}
	switch form {
	case 0:
		return nil
	case 1:
		return []string{idx("start", false)}
	case 2:
		return []string{idx("start", false), idx("end", false)}
	case 3:
		return []string{idx("start", false), idx("end", false), randCase(t, "BYTE")}
	}
	return []string{idx("start", true), idx("end", true), randCase(t, "BIT")}
}

var c18Specials = []string{"", "\xff", "\xff\xff\xff", "\x00", "\x00\x00\x00", "\xff\xff\xfe", "\x00\x00\x01", "\x7f\xff", "\x80", "\xff\xf0\x00",
	"\xff\xff\xff\xff\xff\xff\xff\xff\xff", "\x00\xff\xf0", "foobar"}

func c18Value(t *rapid.T) string {
	switch rapid.IntRange(0, 7).Draw(t, "special") {
	case 0, 1:
		return pick(t, "specialv", c18Specials...)
	case 2:
		// all ones (BITPOS 0 answers "first bit past the end"), possibly with one cleared bit near the end
		b := []byte(strings.Repeat("\xff", rapid.IntRange(1, 12).Draw(t, "ones")))
		if rapid.Bool().Draw(t, "dent") {
			b[len(b)-1] &^= 1 << uint(rapid.IntRange(0, 7).Draw(t, "dentbit"))
		}
		return string(b)
	}
	return string(rapid.SliceOfN(rapid.Byte(), 0, 24).Draw(t, "bytes"))
}

func c18Step(t *rapid.T, db *model.DB) []string {
	k := pick(t, "key", c18Keys...)
	cn := func(s string) string { return randCase(t, s) }
	L := c18Len(db, k)
	switch weighted(t, "cmd", []int{30, 10, 6, 8, 5, 10, 13, 9, 6, 1, 1, 4}) {
	case 0:
		return c18Bitfield(t, db, k)
	case 1:
		return c18BoundaryCombo(t, db, k)
	case 2:
		return c18BitfieldRO(t, db, k)
	case 3: // SETBIT
		var off string
		switch weighted(t, "sboff", []int{8, 3, 1}) {
		case 0:
			off = strconv.Itoa(rapid.IntRange(0, 8*L+17).Draw(t, "off"))
		case 1:
			off = strconv.Itoa(rapid.IntRange(0, 4096).Draw(t, "faroff"))
		default:
			off = pick(t, "hugeoff", "4294967296", "1099511627776", "9223372036854775807", "-1", "-9223372036854775808", "abc", "")
		}
		bit := pick(t, "bit", "0", "1", "0", "1", "0", "1", "0", "1", "2", "-1", "x")
		return []string{cn("SETBIT"), k, off, bit}
	case 4: // GETBIT
		var off string
		switch weighted(t, "gboff", []int{8, 2, 1}) {
		case 0:
			off = strconv.Itoa(rapid.IntRange(0, 8*L+17).Draw(t, "off"))
		case 1:
			off = strconv.Itoa(rapid.IntRange(0, 4096).Draw(t, "faroff"))
		default:
			off = pick(t, "hugeoff", "4294967295", "4294967296", "1099511627776", "9223372036854775807", "-1", "abc")
		}
		return []string{cn("GETBIT"), k, off}
	case 5: // BITCOUNT
		a := append([]string{cn("BITCOUNT"), k}, c18RangeArgs(t, L, true)...)
		if rapid.IntRange(0, 19).Draw(t, "badunit") == 11 {
			a = append(a[:2], "0", "-1", pick(t, "unit", "BITS", "", "x"))
		}
		return a
	case 6: // BITPOS
		if o := db.Keys[k]; o != nil && o.T == model.TString && L > 0 && strings.Count(o.Str, "\xff") == L && rapid.Bool().Draw(t, "pastend") {
			// all ones: looking for a 0 without an explicit end finds the first bit past the end
			a := []string{cn("BITPOS"), k, "0"}
			if rapid.Bool().Draw(t, "withstart") {
				a = append(a, strconv.Itoa(rapid.IntRange(-L-1, L+1).Draw(t, "start")))
			}
			return a
		}
		a := []string{cn("BITPOS"), k, pick(t, "pbit", "0", "1", "0", "1", "0", "1", "0", "1", "0", "1", "2", "-1", "x")}
		a = append(a, c18RangeArgs(t, L, false)...)
		if rapid.IntRange(0, 19).Draw(t, "badunit") == 11 {
			a = append(a[:3], "0", "-1", pick(t, "unit", "BITS", "", "x"))
		}
		return a
	case 7: // BITOP
		op := pick(t, "bitop", "AND", "OR", "XOR", "NOT")
		dest := pick(t, "dest", "a", "b", "c", "d", "missing", "lst")
		n := rapid.IntRange(1, 4).Draw(t, "nsrc")
		if op == "NOT" && rapid.IntRange(0, 7).Draw(t, "not2") > 0 {
			n = 1
		}
		a := []string{cn("BITOP"), cn(op), dest}
		for i := 0; i < n; i++ {
			a = append(a, pick(t, "src", "a", "b", "c", "d", "missing", "nokey", "a", "b", "c", "lst"))
		}
		return a
	case 8:
		return []string{"SET", pick(t, "setk", "a", "b", "c", "d"), c18Value(t)}
	case 9:
		return []string{"DEL", k}
	case 10:
		if rapid.Bool().Draw(t, "persist") {
			return []string{"PERSIST", k}
		}
		return []string{"PEXPIREAT", k, c18FarFuture}
	}
	if rapid.IntRange(0, 2).Draw(t, "otherbad") == 0 {
		// degenerate and malformed forms of the other commands
		return pick(t, "badcmd",
			[]string{"BITFIELD", k}, []string{"BITFIELD_RO", k}, []string{"BITFIELD", k, "OVERFLOW", "SAT"},
			[]string{"BITCOUNT", k, "0", "-1", "BIT", "x"}, []string{"BITCOUNT", k, "a", "1"}, []string{"BITCOUNT", k, "0", "b"},
			[]string{"BITPOS", k, "1", "0", "-1", "BIT", "x"}, []string{"BITPOS", k, "0", "a"}, []string{"BITPOS", k, "0", "0", "b"}, []string{"BITPOS", k},
			[]string{"GETBIT", k}, []string{"GETBIT", k, "0", "0"}, []string{"SETBIT", k, "0"}, []string{"SETBIT", k, "0", "1", "1"},
			[]string{"BITOP", "NAND", "d", k}, []string{"BITOP", "AND", "d"}, []string{"BITOP", "NOT", "d"}, []string{"BITOP", "", "d", k})
	}
	// malformed BITFIELD forms: must be rejected as a whole, without writing
	good := []string{"SET", "u8", strconv.Itoa(rapid.IntRange(0, 40).Draw(t, "goodoff")), "255"}
	bad := pick(t, "badform",
		[]string{"GET", "u64", "0"}, []string{"GET", "i65", "0"}, []string{"GET", "i0", "0"}, []string{"GET", "u0", "0"},
		[]string{"GET", "x8", "0"}, []string{"GET", "8", "0"}, []string{"GET", "i", "0"}, []string{"GET", "i-1", "0"},
		[]string{"SET", "u64", "0", "1"}, []string{"INCRBY", "i65", "0", "1"}, []string{"SET", "u8", "0"}, []string{"SET", "u8", "0", "abc"},
		[]string{"INCRBY", "u8", "0", ""}, []string{"GET", "u8"}, []string{"GET"}, []string{"OVERFLOW", "BOUNCE"}, []string{"OVERFLOW"},
		[]string{"FROB", "u8", "0"}, []string{"SET", "u8", "-1", "1"}, []string{"SET", "u8", "4294967296", "1"},
		[]string{"INCRBY", "i8", "1099511627776", "1"}, []string{"GET", "u8", "9223372036854775807"}, []string{"SET", "i64", "#-1", "1"})
	a := []string{cn("BITFIELD"), k}
	if rapid.Bool().Draw(t, "goodfirst") {
		a = append(a, good...)
		a = append(a, bad...)
	} else {
		a = append(a, bad...)
		a = append(a, good...)
	}
	return a
}

func c18Gen(t *rapid.T) SeqCase {
	db := model.NewDB()
	var steps []kit.Argv
	add := func(argv []string) {
		if id := c18Exclude(argv, db); id != "" {
			c18Mu.Lock()
			c18Dropped[id]++
			c18Mu.Unlock()
			return
		}
		db.Exec(argv, c18GenTime)
		steps = append(steps, kit.A(argv...))
	}
	add([]string{"RPUSH", "lst", "x"})
	for _, k := range []string{"a", "b", "c"} {
		if rapid.IntRange(0, 5).Draw(t, "init") > 0 {
			add([]string{"SET", k, c18Value(t)})
		}
	}
	if rapid.IntRange(0, 3).Draw(t, "ttl") == 0 {
		add([]string{"PEXPIREAT", pick(t, "ttlk", "a", "b", "c"), c18FarFuture})
	}
	n := rapid.IntRange(6, 30).Draw(t, "steps")
	for i := 0; i < n; i++ {
		add(c18Step(t, db))
	}
	return SeqCase{Steps: steps}
}

// c18Exclude names the known emulator defect a step would trigger ("" = none). The generator leaves such
// steps out (and the runner skips them in replayed cases) so that the search can go on behind them.
func c18Exclude(argv []string, db *model.DB) string {
	// every defect the generator once had to avoid (BITCOUNT on empty strings / start beyond the end,
	// BITFIELD negative offsets and overflow arithmetic, SETBIT/GETBIT offsets >= 2^32, BITPOS range
	// ends, BITOP without source) has been repaired in /repo: nothing is excluded any more.
	return ""
}

// ---- classification ----------------------------------------------------------------------------------------------

type c18Sub struct {
	kind, ty, off, ow string
	rawTy, rawVal     string
	val               int64
}

// c18ParseSubs splits a BITFIELD command that the model accepted into its sub-operations.
func c18ParseSubs(argv []string) []c18Sub {
	var subs []c18Sub
	ow := "WRAP"
	for j := 2; j < len(argv); {
		switch upper(argv[j]) {
		case "OVERFLOW":
			if j+1 >= len(argv) {
				return subs
			}
			ow = upper(argv[j+1])
			j += 2
		case "GET":
			if j+2 >= len(argv) {
				return subs
			}
			subs = append(subs, c18Sub{kind: "GET", ty: strings.ToLower(argv[j+1]), rawTy: argv[j+1], off: argv[j+2], ow: ow})
			j += 3
		case "SET", "INCRBY":
			if j+3 >= len(argv) {
				return subs
			}
			v, _ := strconv.ParseInt(argv[j+3], 10, 64)
			subs = append(subs, c18Sub{kind: upper(argv[j]), ty: strings.ToLower(argv[j+1]), rawTy: argv[j+1], off: argv[j+2], ow: ow, val: v, rawVal: argv[j+3]})
			j += 4
		default:
			return subs
		}
	}
	return subs
}

func c18ParseType(s string) (c18Type, bool) {
	if len(s) < 2 {
		return c18Type{}, false
	}
	w, err := strconv.Atoi(s[1:])
	if err != nil || w < 1 || w > 64 {
		return c18Type{}, false
	}
	return c18Type{signed: s[0] == 'i', w: w}, true
}

var (
	c18Mu     sync.Mutex
	c18Tuples = map[string]struct{}{}
	c18Cells  = map[string]struct{}{}
	// steps the generator left out because of a TEMP-EXCLUDE predicate (includes steps drawn while shrinking)
	c18Dropped = map[string]int{}
)

func c18Note(st *kit.Stats, tuple, cell string) {
	c18Mu.Lock()
	if tuple != "" {
		c18Tuples[tuple] = struct{}{}
	}
	if cell != "" {
		c18Cells[cell] = struct{}{}
	}
	st.Extra["distinct_tuples_op_offmod8_width_sign_overflow_boundary"] = len(c18Tuples)
	st.Extra["sweep_cells_covered_of_1016"] = len(c18Cells)
	dropped := map[string]int{}
	for k, v := range c18Dropped {
		dropped[k] = v
	}
	st.Extra["steps_left_out_by_generator_exclusions"] = dropped
	c18Mu.Unlock()
}

// c18Ev is one BITFIELD sub-operation resolved against the state it will find.
type c18Ev struct {
	c18Sub
	typ    c18Type
	bitOff int64
	hash   bool
	old    int64 // value of the field before the sub-operation
	strLen int   // length of the string before the sub-operation
}

// c18Walk resolves the sub-operations of a well-formed BITFIELD one after the other on a copy of the
// pre-state (through the model's public interface only).
func c18Walk(argv []string, before *model.DB, fn func(ev c18Ev)) {
	if len(argv) < 2 {
		return
	}
	key := argv[1]
	sim := before.Clone()
	for _, s := range c18ParseSubs(argv) {
		ty, ok := c18ParseType(s.ty)
		if !ok {
			return
		}
		ev := c18Ev{c18Sub: s, typ: ty}
		if strings.HasPrefix(s.off, "#") {
			n, err := strconv.ParseInt(s.off[1:], 10, 64)
			if err != nil || n < 0 || n > 1<<20 {
				return
			}
			ev.bitOff, ev.hash = n*int64(ty.w), true
		} else {
			n, err := strconv.ParseInt(s.off, 10, 64)
			if err != nil || n < 0 || n > 1<<20 {
				return
			}
			ev.bitOff = n
		}
		old, ok := c18Field(sim, key, s.ty, ev.bitOff)
		if !ok {
			return
		}
		ev.old, ev.strLen = old, c18Len(sim, key)
		fn(ev)
		if s.kind != "GET" {
			sim.Exec([]string{"BITFIELD", key, "OVERFLOW", s.ow, s.kind, s.ty, s.off, s.rawVal}, c18GenTime)
		}
	}
}

// target is the mathematical result the write aims at (value for SET, old+incr for INCRBY).
func (ev c18Ev) target() *big.Int {
	v := big.NewInt(ev.val)
	if ev.kind == "INCRBY" {
		v.Add(v, big.NewInt(ev.old))
	}
	return v
}

func (ev c18Ev) boundaryClass() string {
	if ev.kind == "GET" {
		return "n/a"
	}
	min, max := ev.typ.limits()
	target := ev.target()
	one := big.NewInt(1)
	switch {
	case target.Cmp(max) == 0:
		return "at-max"
	case target.Cmp(min) == 0:
		return "at-min"
	case target.Cmp(new(big.Int).Add(max, one)) == 0:
		return "max+1"
	case target.Cmp(new(big.Int).Sub(min, one)) == 0:
		return "min-1"
	case target.Cmp(max) > 0:
		return "above"
	case target.Cmp(min) < 0:
		return "below"
	}
	return "inside"
}

func c18ObserveBitfield(argv []string, before *model.DB, st *kit.Stats, flags map[string]int) {
	c18Walk(argv, before, func(ev c18Ev) {
		m := int(ev.bitOff % 8)
		sign := "u"
		if ev.typ.signed {
			sign = "i"
		}
		st.Class("bf:" + ev.kind)
		if ev.hash {
			st.Class("bf:hash-offset")
		}
		if m != 0 && m+ev.typ.w > 8 {
			st.Class("bf:straddles-bytes-at-nonzero-bit-offset")
			flags["nt"]++
		}
		if ev.bitOff+int64(ev.typ.w) > int64(8*ev.strLen) {
			st.Class("bf:reaches-past-end-of-string")
		}
		bclass := ev.boundaryClass()
		if ev.kind != "GET" {
			st.Class("bf-overflow-mode:" + ev.ow)
			st.Class("bf-boundary:" + bclass)
			if bclass != "inside" {
				flags["nt"]++
			}
		}
		c18Note(st, fmt.Sprintf("%s|%d|%d|%s|%s|%s", ev.kind, m, ev.typ.w, sign, ev.ow, bclass), fmt.Sprintf("%d|%s%d", m, sign, ev.typ.w))
	})
}

// c18ObserveRange classifies BITCOUNT (args = start end [unit]) / BITPOS (args = [start [end [unit]]]).
func c18ObserveRange(name string, args []string, L int, st *kit.Stats, flags map[string]int) {
	if len(args) == 0 {
		st.Class("range:whole-string")
		return
	}
	unit := "BYTE"
	if len(args) >= 3 {
		unit = upper(args[2])
	}
	st.Class("range:unit=" + unit)
	if len(args) == 1 {
		st.Class("range:no-end")
	}
	start, _ := strconv.ParseInt(args[0], 10, 64)
	tot := int64(L)
	if unit == "BIT" {
		tot *= 8
	}
	end := tot - 1
	if len(args) >= 2 {
		end, _ = strconv.ParseInt(args[1], 10, 64)
	}
	if start < 0 || end < 0 {
		st.Class("range:negative-index")
	}
	if start < 0 {
		start += tot
	}
	if end < 0 {
		end += tot
	}
	if start < 0 {
		start = 0
	}
	if end >= tot {
		end = tot - 1
		st.Class("range:end-clamped")
	}
	if start > end || end < 0 {
		st.Class("range:empty")
		return
	}
	if unit == "BIT" && (start%8 != 0 || end%8 != 7) {
		st.Class("range:end-inside-a-byte")
		flags["nt"]++
		c18Note(st, fmt.Sprintf("%s|%d|%d", name, start%8, end%8), "")
	}
}

func c18Observe(argv []string, before *model.DB, exp model.Exp, st *kit.Stats, flags map[string]int) {
	name := upper(argv[0])
	st.Class("cmd:" + name)
	if len(argv) < 2 {
		return
	}
	key := argv[1]
	if name == "BITOP" && len(argv) > 2 {
		key = argv[2]
	}
	o := before.Keys[key]
	switch {
	case o == nil:
		st.Class("key:missing")
	case o.T != model.TString:
		st.Class("key:wrong-type")
	case o.HasTTL:
		st.Class("key:string+ttl")
	default:
		st.Class("key:string")
	}
	if exp.IsErr() {
		st.Class("rejected:" + name)
		return
	}
	L := c18Len(before, key)
	switch name {
	case "BITFIELD", "BITFIELD_RO":
		c18ObserveBitfield(argv, before, st, flags)
	case "SETBIT":
		off, _ := strconv.ParseInt(argv[2], 10, 64)
		if off >= int64(8*L) {
			st.Class("setbit:zero-extends")
		}
	case "BITCOUNT":
		if o != nil {
			c18ObserveRange(name, argv[2:], L, st, flags)
		}
	case "BITPOS":
		if o != nil {
			c18ObserveRange(name, argv[3:], L, st, flags)
		}
		if exp.Kind == model.EVal && exp.V.K == kit.KInt {
			switch {
			case exp.V.I == -1:
				st.Class("bitpos:not-found")
			case o != nil && exp.V.I == int64(8*L):
				st.Class("bitpos:first-bit-past-the-end")
			}
		}
	case "BITOP":
		srcs := argv[3:]
		st.Class(fmt.Sprintf("bitop:%s:%d-operands", upper(argv[1]), len(srcs)))
		lens := map[int]bool{}
		for _, s := range srcs {
			lens[c18Len(before, s)] = true
			if s == argv[2] {
				st.Class("bitop:dest-is-operand")
			}
		}
		if len(lens) > 1 {
			st.Class("bitop:operands-of-different-lengths")
		}
		if exp.Kind == model.EVal && exp.V.I == 0 {
			st.Class("bitop:empty-result")
		}
	}
}

func c18Skip(argv []string, db *model.DB) string { return c18Exclude(argv, db) }

func c18Run(c SeqCase, st *kit.Stats) error {
	flags := map[string]int{}
	err := runSeq(c, st, seqHooks{observe: c18Observe, skip: c18Skip}, flags)
	if err == nil && flags["nt"] > 0 {
		st.NonTrivial(c.Canon(), c.Sample())
	}
	return err
}

func TestC18(t *testing.T) {
	kit.Check(t, kit.Prop[SeqCase]{ID: "C18", Gen: c18Gen, Run: c18Run})
}
