//go:build verif

package props

import (
	"fmt"
	"os"
	"path/filepath"
	"strconv"
	"strings"
	"sync"
	"sync/atomic"
	"testing"
	"time"

	redisemu "github.com/jimsnab/go-redisemu"
	"pgregory.net/rapid"

	"verifharness/kit"
)

// C19 part C — a write that is acknowledged while the periodic saver is writing that database.
//
// The harness waits for the periodic saver (every second) to reach a drawn stage of writing database 0
// (hook at the save stages), fires one more write at that moment from another connection and, optionally,
// holds the saver at that stage for a few milliseconds. The write is acknowledged at some point - before,
// during or after the snapshot, the emulator decides - and nothing else is written. After a clean shutdown
// and a restart the acknowledged state must be there, whichever side of the snapshot the write fell on.

type C19CCase struct {
	Keys   int    `json:"keys"`
	Stage  string `json:"stage"`   // save-created, save-header, save-key, save-closing
	KeyIdx int    `json:"key_idx"` // for save-key: at which key
	Late   int    `json:"late"`    // which write arrives during the save
	HoldMs int    `json:"hold_ms"`
}

var c19Late = [][]string{{"SET", "late", "v"}, {"DEL", "k0"}, {"APPEND", "k0", "-more"}, {"RPUSH", "lst", "tail"}, {"HSET", "hsh", "late", "1"}, {"SREM", "st", "m1"}, {"PEXPIREAT", "k0", "4102444800000"},
	{"UNLINK", "lst"}, {"EXPIRE", "k0", "-1"}, {"RENAME", "k0", "renamed"}, {"LSET", "lst", "0", "changed"}, {"FLUSHDB"}}

func c19CGen(t *rapid.T) C19CCase {
	return C19CCase{Keys: rapid.IntRange(1, 12).Draw(t, "keys"), Stage: pick(t, "stage", "save-created", "save-header", "save-key", "save-key", "save-closing"), KeyIdx: rapid.IntRange(0, 5).Draw(t, "keyidx"),
		Late: rapid.IntRange(0, len(c19Late)-1).Draw(t, "late"), HoldMs: pick(t, "hold", 0, 2, 10, 30)}
}

func c19CRun(c C19CCase, st *kit.Stats) error {
	root, err := os.MkdirTemp(os.Getenv("VERIF_RUN"), "c19c-")
	if err != nil {
		return fmt.Errorf("harness: %v", err)
	}
	defer os.RemoveAll(root)
	snapDir := filepath.Join(root, "snap")
	os.MkdirAll(snapDir, 0o755)
	persist := filepath.Join(snapDir, "data")

	var armed, injected atomic.Bool
	var late *kit.Conn
	done := make(chan struct{})
	var once sync.Once
	var lateReply kit.Value
	var lateErr error
	redisemu.SetVerifHook(func(point string, id int64, n int) {
		if !strings.HasPrefix(point, "save-") || !armed.Load() {
			return
		}
		if point != c.Stage || (point == "save-key" && n < c.KeyIdx && n < c.Keys-1) {
			return
		}
		once.Do(func() {
			injected.Store(true)
			go func() {
				lateReply, lateErr = late.Do(c19Late[c.Late]...)
				close(done)
			}()
			time.Sleep(time.Duration(c.HoldMs) * time.Millisecond)
		})
	})
	defer redisemu.SetVerifHook(nil)

	emu := kit.StartEmu(persist)
	stopped := false
	defer func() {
		if !stopped {
			emu.Stop()
		}
	}()
	conn := emu.Dial()
	late = emu.Dial()
	late.Do("PING")
	for i := 0; i < c.Keys; i++ {
		conn.Do("SET", "k"+strconv.Itoa(i), "value-"+strconv.Itoa(i))
	}
	conn.Do("RPUSH", "lst", "a", "b")
	conn.Do("HSET", "hsh", "f", "1")
	conn.Do("SADD", "st", "m1", "m2")
	armed.Store(true)
	// the periodic saver runs about once a second
	deadline := time.Now().Add(4 * time.Second)
	for !injected.Load() && time.Now().Before(deadline) {
		time.Sleep(5 * time.Millisecond)
	}
	if !injected.Load() {
		st.Class("periodic-save-not-seen")
		return nil
	}
	select {
	case <-done:
	case <-time.After(10 * time.Second):
		return fmt.Errorf("%v sent while the periodic saver was at stage %s got no reply within 10 s", c19Late[c.Late], c.Stage)
	}
	if lateErr != nil || lateReply.IsErr() {
		return fmt.Errorf("%v during the save: %v %v", c19Late[c.Late], lateReply, lateErr)
	}
	armed.Store(false)
	time.Sleep(30 * time.Millisecond) // let the save that was in progress finish; nothing is written any more
	before, err := dumpAll(conn)
	if err != nil {
		return fmt.Errorf("dump before shutdown: %v", err)
	}
	emu.CloseConns()
	emu.E.Close()
	stopped = true
	emu2 := kit.StartEmuOn(emu.Port, persist)
	defer emu2.Stop()
	after, err := dumpAll(emu2.Dial())
	if err != nil {
		return fmt.Errorf("dump after restart: %v", err)
	}
	for db := 0; db < 16; db++ {
		if !dbEqual(before[db], after[db]) {
			return fmt.Errorf("%v was acknowledged while the periodic saver was writing database 0 (stage %s, saver held %d ms) and nothing was written afterwards; before the clean shutdown database %d was %s, after the restart it is %s",
				c19Late[c.Late], c.Stage, c.HoldMs, db, dbText(before[db]), dbText(after[db]))
		}
	}
	st.Class("late-write:" + c19Late[c.Late][0] + "@" + c.Stage)
	st.NonTrivial(fmt.Sprintf("%+v", c), c)
	return nil
}

func TestC19C(t *testing.T) {
	kit.Check(t, kit.Prop[C19CCase]{ID: "C19C", Gen: c19CGen, Run: c19CRun})
}
