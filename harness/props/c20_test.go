package props

import (
	"fmt"
	"net"
	"strconv"
	"strings"
	"sync"
	"testing"
	"time"

	"pgregory.net/rapid"

	"verifharness/kit"
)

// C20 — lifecycle: Close terminates promptly and completely; port and state reusable; instances isolated.

type C20Case struct {
	Cycles   int   `json:"cycles"`
	States   []int `json:"states"`    // per connection: 0 idle, 1 pipeline written but not read, 2 inside MULTI with queued writes, 3 blocked in BLPOP 0, 4 blocked in BLMOVE 0, 5 half a command sent, 6 pipeline whose replies exceed the socket buffers, not read
	TwoStep  bool  `json:"two_step"`  // RequestTermination + WaitForTermination instead of Close
	Second   bool  `json:"second"`    // a second emulator instance is alive at the same time
	KillKind int   `json:"kill_kind"` // which CLIENT KILL filter the first instance issues while the second is alive
	Storm    int   `json:"storm"`     // goroutines that keep opening new connections while the emulator terminates
}

var c20StateNames = []string{"idle", "pipeline-unread", "inside-MULTI", "blocked-BLPOP", "blocked-BLMOVE", "mid-frame", "big-replies-unread", "reset-before-reply", "closed-after-pipeline", "hangs-up-during-termination"}

func c20Gen(t *rapid.T) C20Case {
	c := C20Case{Cycles: rapid.IntRange(1, 3).Draw(t, "cycles"), TwoStep: rapid.Bool().Draw(t, "twostep"), Second: rapid.IntRange(0, 2).Draw(t, "second") == 0, KillKind: rapid.IntRange(0, 3).Draw(t, "kill"), Storm: pick(t, "storm", 0, 0, 1, 4, 8)}
	for n := rapid.IntRange(0, 6).Draw(t, "conns"); n > 0; n-- {
		c.States = append(c.States, weighted(t, "state", []int{4, 3, 3, 3, 3, 3, 1, 2, 2, 3}))
	}
	return c
}

const c20Bound = 20 * time.Second

func c20Run(c C20Case, st *kit.Stats) error {
	port := kit.FreePort()
	for cycle := 0; cycle < c.Cycles; cycle++ {
		if !kit.PortFree(port) {
			return fmt.Errorf("cycle %d: the port of the terminated emulator cannot be bound again", cycle)
		}
		emu := kit.StartEmuOn(port, "")
		admin, err := kit.Dial(emu.Addr)
		if err != nil {
			return fmt.Errorf("cycle %d: cannot connect to the restarted emulator: %v", cycle, err)
		}
		// a successor without persist path starts empty
		for db := 0; db < 16; db++ {
			admin.Do("SELECT", strconv.Itoa(db))
			if v, err := admin.Do("DBSIZE"); err != nil || !kit.Equal(v, kit.Int(0)) {
				return fmt.Errorf("cycle %d: a freshly started emulator without persist path has DBSIZE %v in database %d (%v)", cycle, v, db, err)
			}
		}
		admin.Do("SELECT", "0")
		admin.Do("SET", "data", "cycle"+strconv.Itoa(cycle))
		admin.Do("RPUSH", "src", "a", "b")

		// second instance alive at the same time
		var other *kit.Emu
		if c.Second && cycle == 0 {
			other = kit.StartEmu("")
			if err := c20Isolation(emu, other, c.KillKind, st); err != nil {
				other.Stop()
				emu.Stop()
				return err
			}
		}

		// client activity at the moment of termination
		conns := make([]*kit.Conn, len(c.States))
		gone := make([]bool, len(c.States)) // connections the client side has closed itself
		for i, s := range c.States {
			cn, err := kit.Dial(emu.Addr)
			if err != nil {
				return fmt.Errorf("dial: %v", err)
			}
			cn.Proto = 0
			conns[i] = cn
			st.Class("state:" + c20StateNames[s])
			switch s {
			case 1:
				var buf []byte
				for j := 0; j < 50; j++ {
					buf = append(buf, kit.EncodeCmd("INCR", "ctr"+strconv.Itoa(i))...)
				}
				cn.Write(buf)
			case 2:
				cn.Do("MULTI")
				cn.Do("SET", "tx"+strconv.Itoa(i), "1")
				cn.Do("INCR", "ctr")
			case 3:
				cn.Write(kit.EncodeCmd("BLPOP", "empty"+strconv.Itoa(i), "0"))
			case 4:
				cn.Write(kit.EncodeCmd("BLMOVE", "empty"+strconv.Itoa(i), "dst", "LEFT", "RIGHT", "0"))
			case 5:
				full := kit.EncodeCmd("SET", "half"+strconv.Itoa(i), "value")
				cn.Write(full[:len(full)/2])
			case 7:
				// the peer resets the connection while a reply is still due: the server's write fails later
				cn.Write(kit.EncodeCmd("BLPOP", "empty"+strconv.Itoa(i), "0.03"))
				time.Sleep(2 * time.Millisecond)
				if tc, ok := cn.C.(*net.TCPConn); ok {
					tc.SetLinger(0)
				}
				cn.Close()
				gone[i] = true
			case 8:
				var buf []byte
				for j := 0; j < 200; j++ {
					buf = append(buf, kit.EncodeCmd("INCR", "ctr"+strconv.Itoa(i))...)
				}
				cn.Write(buf)
				if tc, ok := cn.C.(*net.TCPConn); ok {
					tc.SetLinger(0)
				}
				cn.Close()
				gone[i] = true
			case 6:
				// the server ends up stuck in a write to a client that is not reading
				admin.Do("SET", "big", strings.Repeat("B", 1<<20))
				var buf []byte
				for j := 0; j < 64; j++ {
					buf = append(buf, kit.EncodeCmd("GET", "big")...)
				}
				cn.Write(buf)
			}
		}
		time.Sleep(5 * time.Millisecond) // let the blocking commands reach the server
		for _, s := range c.States {
			if s == 6 {
				time.Sleep(400 * time.Millisecond) // until the socket buffers are full and the server is stuck in a write
				break
			}
		}
		for _, s := range c.States {
			if s == 7 {
				time.Sleep(60 * time.Millisecond) // until the blocking command has timed out and its reply has hit the reset connection
				break
			}
		}
		admin.Close()

		// clients that are connecting at the very moment of termination
		var stormMu sync.Mutex
		var stormConns []*kit.Conn
		stormStop := make(chan struct{})
		var stormWg sync.WaitGroup
		for g := 0; g < c.Storm; g++ {
			stormWg.Add(1)
			go func() {
				defer stormWg.Done()
				for n := 0; n < 80; n++ { // bounded: every connection costs an ephemeral port for a minute
					select {
					case <-stormStop:
						return
					default:
					}
					time.Sleep(40 * time.Microsecond)
					cn, err := kit.Dial(emu.Addr)
					if err != nil {
						time.Sleep(50 * time.Microsecond)
						continue
					}
					cn.Proto = 0
					stormMu.Lock()
					stormConns = append(stormConns, cn)
					stormMu.Unlock()
				}
			}()
		}
		if c.Storm > 0 {
			time.Sleep(time.Millisecond)
			st.Class("connections-arriving-during-termination")
		}

		// clients that hang up by themselves at the moment the emulator terminates
		hang := make(chan struct{})
		for i, s := range c.States {
			if s == 9 {
				gone[i] = true
				go func(i int, cn *kit.Conn) {
					<-hang
					time.Sleep(time.Duration(i*37%200) * time.Microsecond)
					cn.Close()
				}(i, conns[i])
			}
		}

		// terminate
		done := make(chan struct{})
		t0 := time.Now()
		close(hang)
		go func() {
			if c.TwoStep {
				emu.E.RequestTermination()
				emu.E.WaitForTermination()
			} else {
				emu.E.Close()
			}
			close(done)
		}()
		select {
		case <-done:
		case <-time.After(c20Bound):
			close(stormStop)
			return fmt.Errorf("cycle %d: termination did not return within %v with client states %v and %d goroutines opening connections", cycle, c20Bound, stateNames(c.States), c.Storm)
		}
		time.Sleep(200 * time.Microsecond)
		close(stormStop)
		stormWg.Wait()
		st.ClassN("connections-opened-during-termination", len(stormConns))
		if len(stormConns) > 0 {
			// whichever of them got connected: none may be served now that termination has returned
			served := make(chan string, len(stormConns))
			var cw sync.WaitGroup
			for i, cn := range stormConns {
				cw.Add(1)
				go func(i int, cn *kit.Conn) {
					defer cw.Done()
					nonce := fmt.Sprintf("storm-%d-%d", cycle, i)
					cn.Write(append(kit.EncodeCmd("SET", "written-after-close", nonce), kit.EncodeCmd("ECHO", nonce)...))
					rawb, closed := cn.DrainClosed(3 * time.Second)
					cn.Close()
					if strings.Contains(string(rawb), nonce) {
						served <- nonce
					} else if !closed {
						served <- "(left open) " + nonce
					}
				}(i, cn)
			}
			cw.Wait()
			close(served)
			if n, ok := <-served; ok {
				if strings.HasPrefix(n, "(left open)") {
					return fmt.Errorf("cycle %d: a connection opened while the emulator was terminating (one of %d) is still open 3 s after termination returned", cycle, len(stormConns))
				}
				return fmt.Errorf("cycle %d: a connection opened while the emulator was terminating (one of %d) is still served after termination returned: it got the reply to ECHO %s", cycle, len(stormConns), n)
			}
		}
		st.Class(fmt.Sprintf("terminated-in-under-%s", bucket(time.Since(t0))))

		// the port is released
		if !kit.PortFree(port) {
			return fmt.Errorf("cycle %d: after termination returned the listening port is still bound", cycle)
		}
		// no previously connected client can read or modify data any more
		for i, cn := range conns {
			if gone[i] {
				continue
			}
			nonce := fmt.Sprintf("after-close-%d-%d", cycle, i)
			cn.Drain(20 * time.Millisecond) // replies to commands that were in flight may be present or absent
			var req []byte
			switch c.States[i] {
			case 5:
				full := kit.EncodeCmd("SET", "half"+strconv.Itoa(i), "value")
				req = append(req, full[len(full)/2:]...)
			case 2:
				req = append(req, kit.EncodeCmd("EXEC")...)
			}
			req = append(req, kit.EncodeCmd("SET", "written-after-close", nonce)...)
			req = append(req, kit.EncodeCmd("ECHO", nonce)...)
			cn.Write(req)
			rawb, closed := cn.DrainClosed(3 * time.Second)
			raw := string(rawb)
			cn.Close()
			if strings.Contains(raw, nonce) {
				return fmt.Errorf("cycle %d: a connection that existed before termination (state %s) was still served after termination returned: it got the reply to ECHO %s", cycle, c20StateNames[c.States[i]], nonce)
			}
			if !closed {
				return fmt.Errorf("cycle %d: a connection that existed before termination (state %s) is still open 3 s after termination returned: the client sees neither EOF nor a reset, and what it sends goes nowhere", cycle, c20StateNames[c.States[i]])
			}
		}
		if other != nil {
			// the other instance is untouched by the termination of the first
			oc, err := kit.Dial(other.Addr)
			if err != nil {
				other.Stop()
				return fmt.Errorf("the second instance refuses connections after the first one terminated: %v", err)
			}
			v, err := oc.Do("GET", "data")
			oc.Close()
			other.Stop()
			if err != nil || !kit.Equal(v, kit.Bulk("other")) {
				return fmt.Errorf("the second instance lost its data when the first one terminated: GET data -> %v %v", v, err)
			}
		}
	}
	nontrivial := c.Second
	for _, s := range c.States {
		if s != 0 {
			nontrivial = true
		}
	}
	if nontrivial {
		st.NonTrivial(fmt.Sprintf("%+v", c), map[string]any{"cycles": c.Cycles, "states": stateNames(c.States), "two_step": c.TwoStep, "second_instance": c.Second})
	}
	return nil
}

func stateNames(s []int) []string {
	out := make([]string, len(s))
	for i, x := range s {
		out[i] = c20StateNames[x]
	}
	return out
}

func bucket(d time.Duration) string {
	switch {
	case d < 10*time.Millisecond:
		return "10ms"
	case d < 100*time.Millisecond:
		return "100ms"
	case d < time.Second:
		return "1s"
	}
	return "10s"
}

// c20Isolation: two instances alive together do not see each other's data or clients.
func c20Isolation(x, y *kit.Emu, killKind int, st *kit.Stats) error {
	xc, yc := x.Dial(), y.Dial()
	yc2 := y.Dial()
	yc.Do("SET", "data", "other")
	if v, _ := xc.Do("GET", "data"); !strings.HasPrefix(v.S, "cycle") {
		return fmt.Errorf("instance X reads %s for a key that instance Y wrote", v)
	}
	if v, _ := yc.Do("EXISTS", "src"); !kit.Equal(v, kit.Int(0)) {
		return fmt.Errorf("a key written through instance X exists in instance Y")
	}
	yid, _ := yc.Do("CLIENT", "ID")
	yid2, _ := yc2.Do("CLIENT", "ID")
	xid, _ := xc.Do("CLIENT", "ID")
	xc.Proto = 0
	lv, err := xc.Do("CLIENT", "LIST")
	if err != nil {
		return fmt.Errorf("CLIENT LIST: %v", err)
	}
	for _, line := range strings.Split(lv.S, "\n") {
		for _, f := range strings.Fields(line) {
			if f == "id="+strconv.FormatInt(yid.I, 10) || f == "id="+strconv.FormatInt(yid2.I, 10) {
				return fmt.Errorf("CLIENT LIST on instance X lists a connection of instance Y: %q", line)
			}
		}
	}
	if !strings.Contains(lv.S, "id="+strconv.FormatInt(xid.I, 10)+" ") {
		return fmt.Errorf("CLIENT LIST on instance X does not list its own connection %d: %q", xid.I, lv.S)
	}
	// CLIENT KILL filters issued on X never close Y's connections
	var kill []string
	switch killKind {
	case 0:
		kill = []string{"CLIENT", "KILL", "ID", strconv.FormatInt(yid.I, 10)}
	case 1:
		kill = []string{"CLIENT", "KILL", "TYPE", "normal"}
	case 2:
		kill = []string{"CLIENT", "KILL", "USER", "default"}
	default:
		kill = []string{"CLIENT", "KILL", "TYPE", "normal", "SKIPME", "no"}
	}
	st.Class("kill:" + strings.Join(kill[2:3], ""))
	xc.Do(kill...)
	// unblock across instances must not work either
	xc2, _ := kit.Dial(x.Addr)
	if xc2 != nil {
		if v, err := xc2.Do("CLIENT", "UNBLOCK", strconv.FormatInt(yid2.I, 10)); err == nil && !kit.Equal(v, kit.Int(0)) {
			return fmt.Errorf("CLIENT UNBLOCK on instance X with the id of a connection of instance Y replied %s", v)
		}
		xc2.Close()
	}
	for _, c := range []*kit.Conn{yc, yc2} {
		if v, err := c.DoT(2*time.Second, "PING"); err != nil || !kit.Equal(v, kit.Simple("PONG")) {
			return fmt.Errorf("%v issued on instance X closed a connection of instance Y (PING -> %v %v)", kill, v, err)
		}
	}
	st.Class("two-instances")
	return nil
}

func TestC20(t *testing.T) {
	kit.Check(t, kit.Prop[C20Case]{ID: "C20", Gen: c20Gen, Run: c20Run})
}
