package props

import (
	"fmt"
	"os"
	"sort"
	"strconv"
	"strings"
	"testing"

	"pgregory.net/rapid"

	"verifharness/kit"
	"verifharness/model"
)

// C15 — RESP2 and RESP3 carry the same information; HELLO switches the protocol per connection.
//
// Part 1 (differential): one emulator, connection A stays RESP2 on database 1, connection B does
// HELLO 3 and works on database 2. The same program is executed step by step on both. Reply A must
// parse under the strict RESP2 parser and must be the canonical down-conversion of reply B.
// Part 2 (HELLO model): 2-3 further connections, drawn HELLO switches interleaved with probes whose
// reply shape reveals the protocol in force; the model is "protocol per connection, starts at 2,
// HELLO 2/3 switches, everything else is refused and changes nothing".

// ---- case ----------------------------------------------------------------------------------------------

type C15Step struct {
	Argv  kit.Argv `json:"argv"`
	Group string   `json:"group"`
}

// C15Sw is one operation of part 2: a HELLO variant or a probe on connection Conn.
type C15Sw struct {
	Conn int      `json:"conn"`
	Argv kit.Argv `json:"argv"`
}

type C15Case struct {
	Prog   []C15Step `json:"prog"`
	NConn  int       `json:"nconn"`
	Switch []C15Sw   `json:"switch"`
}

// placeholders substituted at run time (per connection)
const (
	c15PhProto = "$PROTO" // 2 on A, 3 on B
	c15PhIDA   = "$IDA"   // client id of A
	c15PhIDB   = "$IDB"   // client id of B
)

// ---- known-defect predicates (the lead removes them after the fix) ----------------------------------------

// c15NoExclude: C15_NOEXCLUDE=1 switches every predicate off, C15_NOEXCLUDE=<id>[,<id>] switches single
// ones off (sensitivity check: the search must then find the defect).
func c15NoExclude(id string) bool {
	// every defect these predicates avoided has been repaired in /repo (see known_findings.json, "fixed:");
	// the predicates stay switched off so that a regression is reported again
	if os.Getenv("C15_EXCLUDE") == "" {
		return true
	}
	v := os.Getenv("C15_NOEXCLUDE")
	if v == "" {
		return false
	}
	if v == "1" || v == "all" {
		return true
	}
	for _, x := range strings.Split(v, ",") {
		if x == id {
			return true
		}
	}
	return false
}

const (
	c15KfNull     = "C15-resp3-null-written-as-resp2-null"
	c15KfVerbatim = "C15-verbatim-downconverted-to-simple-string"
	c15KfHelloInt = "C15-hello-accepts-any-integer"
	c15KfBitcount = "C18-bitcount-of-empty-string-panics"
)

// c15Excluded returns the id of the defect a command would trigger ("" = none); such a step is left out.
func c15Excluded(argv []string) string {
	if len(argv) == 0 {
		return ""
	}
	name := upper(argv[0])
	sub := ""
	if len(argv) > 1 {
		sub = upper(argv[1])
	}
	// TEMP-EXCLUDE: a verbatim string (CLIENT LIST, INFO) is down-converted for RESP2 to the simple
	// string "+txt:<text>" - format prefix included, and with the LF / CRLF of the text inside a
	// simple-string line, which breaks the RESP2 framing (resp.go resp3To2: respVerbatimString ->
	// respSimpleString(fmt.Sprintf("%s", v))).
	if !c15NoExclude(c15KfVerbatim) && (name == "INFO" || (name == "CLIENT" && sub == "LIST")) {
		return c15KfVerbatim
	}
	// TEMP-EXCLUDE: BITCOUNT of a key holding the empty string (left behind e.g. by BITOP NOT dst missing)
	// panics with "slice bounds out of range [-1:]" in fnBitCount (redisBits.go:69) and kills the process.
	// Not a C15 subject (C13/C18); the command is left out so that the C15 search can run.
	if !c15NoExclude(c15KfBitcount) && name == "BITCOUNT" {
		return c15KfBitcount
	}
	// TEMP-EXCLUDE: HELLO accepts every integer as protocol version (redisCore.go fnHello stores
	// protover unchecked; every value other than 2 then behaves as RESP3).
	if !c15NoExclude(c15KfHelloInt) && name == "HELLO" && len(argv) > 1 && argv[1] != "2" && argv[1] != "3" && argv[1] != c15PhProto {
		if _, err := strconv.ParseInt(argv[1], 10, 64); err == nil {
			return c15KfHelloInt
		}
	}
	return ""
}

// c15TolerateNull: TEMP-EXCLUDE: on a RESP3 connection every null is written as the RESP2 null bulk
// "$-1\r\n" instead of "_\r\n" (respSerializer.go serializeValue `case nil`; no handler ever produces
// respNull, and dispatchHandler passes nil through for RESP3). While tolerated, RESP3 connections are
// parsed leniently (kit parser proto 0) and the nil forms are checked here.
func c15TolerateNull() bool { return !c15NoExclude(c15KfNull) }

// c15P3 is the kit.Conn.Proto value for a connection that the model says speaks RESP3.
func c15P3() int {
	if c15TolerateNull() {
		return 0 // lenient: all types, both nil forms; c15NilForms does the nil check
	}
	return 3
}

// ---- generator -------------------------------------------------------------------------------------------

var c15Pool = map[model.Type][]string{
	model.TString: {"ks", "ks1", "lcs1", "lcs2"},
	model.TList:   {"kl", "kl1", "kl2"},
	model.THash:   {"kh", "kh1", "kh2"},
	model.TSet:    {"kz", "kz1", "kz2"},
}

// c15Setup runs on both connections before the program (replies are compared as well).
func c15Setup() [][]string {
	s := setupTyped()
	return append(s,
		[]string{"SET", "lcs1", "ohmytext"}, []string{"SET", "lcs2", "mynewtext"},
		[]string{"RPUSH", "kl2", "a", "b", "c", "a", "b", "a"},
		[]string{"HSET", "kh2", "n", "1.5", "i", "10", "s", "abc", "t", "xyz", "u", "0"},
		[]string{"SADD", "kz2", "a", "b", "c", "d", "e"},
		[]string{"MSET", "w_3", "10", "w_1", "30", "w_2", "20", "o_1", "one"},
	)
}

func c15Key(t *rapid.T, on model.Type) string {
	if on == model.TNone {
		on = pick(t, "anyty", allTypes...)
	}
	switch r := rapid.IntRange(0, 9).Draw(t, "kc"); {
	case r < 7:
		return pick(t, "k", c15Pool[on]...)
	case r < 9:
		return pick(t, "wk", c15Pool[pick(t, "wty", allTypes...)]...)
	}
	return "kmiss"
}

func c15TmplGroup(tm tmpl) string {
	switch {
	case strings.HasPrefix(tm.name, "BIT") || tm.name == "SETBIT" || tm.name == "GETBIT":
		return "bitmap"
	case tm.on == model.TString:
		return "string"
	case tm.on == model.TList:
		return "list"
	case tm.on == model.THash:
		return "hash"
	case tm.on == model.TSet:
		return "set"
	}
	return "keyspace"
}

// c15ByGroup: the inventory templates by command group (the table is string heavy; groups are drawn
// uniformly, then a template inside the group).
var c15Groups, c15ByGroup = func() ([]string, map[string][]int) {
	m := map[string][]int{}
	var names []string
	for i, tm := range cmdTable {
		g := c15TmplGroup(tm)
		if m[g] == nil {
			names = append(names, g)
		}
		m[g] = append(m[g], i)
	}
	return names, m
}()

func c15FromTable(t *rapid.T) C15Step {
	g := c15ByGroup[pick(t, "grp", c15Groups...)]
	tm := cmdTable[g[rapid.IntRange(0, len(g)-1).Draw(t, "tmpl")]]
	keys := make([]string, tm.slots)
	for i := range keys {
		keys[i] = c15Key(t, tm.on)
	}
	return C15Step{Argv: kit.A(tm.mk(t, keys)...), Group: c15TmplGroup(tm)}
}

func c15Opt(t *rapid.T, label string, a []string, opt ...string) []string {
	if rapid.Bool().Draw(t, label) {
		return append(a, opt...)
	}
	return a
}

// c15Shapes: commands chosen for their reply shape (nested arrays, maps, pair lists, doubles, nils).
func c15Shapes(t *rapid.T) C15Step {
	S := func(g string, a ...string) C15Step { return C15Step{Argv: kit.A(a...), Group: g} }
	hk := func() string { return pick(t, "hk", "kh2", "kh2", "kh", "kh1", "kmiss", "kl") }
	switch rapid.IntRange(0, 27).Draw(t, "shape") {
	case 0:
		a := []string{"LCS", pick(t, "l1", "lcs1", "ks1", "kmiss", "lcs2"), pick(t, "l2", "lcs2", "lcs1", "ks", "kh"), "IDX"}
		a = c15Opt(t, "mml", a, "MINMATCHLEN", pick(t, "mm", "0", "1", "2", "5"))
		a = c15Opt(t, "wml", a, "WITHMATCHLEN")
		return S("string", a...)
	case 1:
		return S("string", "LCS", "lcs1", "lcs2", pick(t, "lo", "LEN", "IDX"))
	case 2:
		a := []string{"LPOS", pick(t, "lk", "kl2", "kl2", "kl", "kmiss", "kh"), pick(t, "le", "a", "b", "zz", "1")}
		a = c15Opt(t, "rank", a, "RANK", pick(t, "rk", "1", "-1", "2", "-2"))
		a = c15Opt(t, "cnt", a, "COUNT", pick(t, "cn", "0", "1", "2", "5"))
		a = c15Opt(t, "max", a, "MAXLEN", pick(t, "ml", "0", "2", "4"))
		return S("list", a...)
	case 3:
		return S("list", "LMPOP", "2", pick(t, "m1", "kmiss", "kl2", "kl"), pick(t, "m2", "kl2", "kl1", "kmiss", "kz"),
			pick(t, "dir", "LEFT", "RIGHT"), "COUNT", pick(t, "mc", "1", "2", "10"))
	case 4:
		return S("list", "LMPOP", "1", pick(t, "m1", "kmiss", "kl2"), pick(t, "dir", "LEFT", "RIGHT"))
	case 5:
		return S("hash", "HRANDFIELD", hk(), pick(t, "hc", "1", "2", "-3", "10", "0", "-1"), "WITHVALUES")
	case 6:
		return S("hash", "HRANDFIELD", hk(), pick(t, "hc", "1", "3", "-4", "0"))
	case 7:
		return S("hash", "HRANDFIELD", hk())
	case 8:
		return S("hash", pick(t, "hg", "HGETALL", "HGETALL", "HKEYS", "HVALS"), hk())
	case 9:
		return S("hash", "HINCRBYFLOAT", pick(t, "hfk", "kh2", "kh2", "kh", "hnew", "ks"), pick(t, "hff", "n", "i", "u", "s", "fresh"),
			// (magnitudes at which 'f' and 'g' float formatting differ are part of the pool)
			pick(t, "hfv", "0.25", "-1.5", "1e2", "3", "0", "abc", "1e400", "0.00001", "-0.000002", "1e-7", "1000000000000000000000", "1e21", "123456789.5", "-1e6", "4e15"))
	case 10:
		return S("hash", "HMGET", hk(), pick(t, "f1", "n", "zz", "f"), pick(t, "f2", "i", "zz", "g"), "zz")
	case 11:
		return S("string", "MGET", pick(t, "g1", "ks", "kmiss", "kl"), pick(t, "g2", "ks1", "kmiss"), "lcs1", "kmiss")
	case 12:
		return S("string", "INCRBYFLOAT", pick(t, "fk", "ks", "fcnt", "ks1", "kl"), pick(t, "fv", "0.5", "-1.25", "1e2", "abc"))
	case 13:
		return S("bitmap", "BITFIELD", pick(t, "bk", "ks", "ks1", "kmiss", "kl"), "OVERFLOW", "FAIL", "INCRBY", "u2", "0", pick(t, "bi", "1", "5"),
			"GET", "u4", "0", "OVERFLOW", pick(t, "ov", "WRAP", "SAT"), "INCRBY", "i4", "4", "9")
	case 14:
		a := []string{"SORT", pick(t, "sk", "kl", "kz", "kl", "kmiss", "kh")}
		a = c15Opt(t, "by", a, "BY", pick(t, "byp", "w_*", "nosort", "zz*"))
		a = c15Opt(t, "lim", a, "LIMIT", pick(t, "so", "0", "1"), pick(t, "sc", "1", "2", "10"))
		a = c15Opt(t, "get", a, "GET", "#", "GET", pick(t, "gp", "w_*", "o_*", "zz*"))
		a = c15Opt(t, "alpha", a, "ALPHA")
		return S("keyspace", a...)
	case 15:
		a := []string{"SCAN", "0"}
		a = c15Opt(t, "m", a, "MATCH", pick(t, "pat", "*", "k*", "k?", "kh*", "zz*"))
		a = c15Opt(t, "c", a, "COUNT", pick(t, "cnt", "1000", "100", "3"))
		a = c15Opt(t, "ty", a, "TYPE", pick(t, "sty", "string", "list", "hash", "set", "zset"))
		return S("scan", a...)
	case 16:
		return S("scan", "HSCAN", hk(), "0", "COUNT", pick(t, "cnt", "1000", "2"))
	case 17:
		return S("scan", "SSCAN", pick(t, "zk", "kz2", "kz", "kmiss", "kl"), "0", "MATCH", pick(t, "pat", "*", "[a-c]", "1"))
	case 18:
		return S("keyspace", "KEYS", pick(t, "pat", "*", "k*", "k[lh]*", "zz*", "lcs?"))
	case 19:
		return S("keyspace", pick(t, "ksc", "RANDOMKEY", "DBSIZE"))
	case 20:
		return S("keyspace", "DUMP", pick(t, "dk", "ks", "kl", "kh", "kz", "kmiss"))
	case 21:
		return S("set", "SMISMEMBER", pick(t, "zk", "kz2", "kz", "kmiss"), "a", "1", "zz")
	case 22:
		return S("set", "SRANDMEMBER", pick(t, "zk", "kz2", "kz", "kmiss", "kl"), pick(t, "zc", "1", "3", "-4", "0", "10"))
	case 23:
		a := []string{pick(t, "alg", "SINTER", "SUNION", "SDIFF", "SMEMBERS"), pick(t, "zk", "kz2", "kz", "kz1", "kmiss")}
		if a[0] != "SMEMBERS" {
			a = c15Opt(t, "two", a, pick(t, "zk2", "kz", "kz1", "kz2", "kmiss", "ks"))
		}
		return S("set", a...)
	case 24:
		return S("list", pick(t, "pp", "LPOP", "RPOP"), pick(t, "lk", "kl2", "kl", "kmiss"), pick(t, "pc", "0", "1", "3"))
	case 25:
		return S("list", "LRANGE", pick(t, "lk", "kl2", "kl", "kl1", "kmiss"), "0", "-1")
	case 26:
		return S("keyspace", pick(t, "tt", "TTL", "PTTL", "EXPIRETIME", "PEXPIRETIME"), pick(t, "tk", "ks1", "kl1", "ks", "kmiss"))
	default:
		return S("hash", "HSET", pick(t, "hk", "kh2", "kh", "hnew"), fld(t), el(t), "n", pick(t, "nv", "1.5", "2", "x"))
	}
}

// c15Conn: connection and server commands.
func c15ConnCmd(t *rapid.T, inMulti bool) C15Step {
	S := func(g string, a ...string) C15Step { return C15Step{Argv: kit.A(a...), Group: g} }
	for {
		switch rapid.IntRange(0, 21).Draw(t, "conn") {
		case 0:
			if inMulti {
				continue // HELLO inside MULTI is a don't-care corner
			}
			return S("connection", "HELLO")
		case 1:
			if inMulti {
				continue
			}
			a := []string{"HELLO", c15PhProto}
			a = c15Opt(t, "sn", a, "SETNAME", pick(t, "nm", "alpha", "beta"))
			return S("connection", a...)
		case 2:
			return S("connection", "CLIENT", "ID")
		case 3, 4:
			return S("connection", "CLIENT", "INFO")
		case 5, 6:
			if inMulti {
				continue // CLIENT LIST inside MULTI/EXEC deadlocks the emulator (known, C09)
			}
			a := []string{"CLIENT", "LIST"}
			a = c15Opt(t, "ids", a, "ID", c15PhIDA, c15PhIDB)
			return S("connection", a...)
		case 7:
			return S("connection", "CLIENT", "GETNAME")
		case 8:
			return S("connection", "CLIENT", "SETNAME", pick(t, "nm", "alpha", "beta", "with space", ""))
		case 9:
			return S("connection", pick(t, "cs", []string{"CLIENT", "NO-EVICT", "on"}, []string{"CLIENT", "NO-EVICT", "off"}, []string{"CLIENT", "SETINFO", "lib-name", "x"},
				[]string{"CLIENT", "UNBLOCK", "999999999"}, []string{"CLIENT", "BOGUS"}, []string{"CLIENT", "SETINFO", "bogus", "x"})...)
		case 10:
			return S("connection", "PING")
		case 11:
			return S("connection", pick(t, "pe", "PING", "ECHO"), pick(t, "msg", "hello", "", "a b"))
		case 12, 13:
			a := []string{"INFO"}
			for i := rapid.IntRange(0, 2).Draw(t, "nsec"); i > 0; i-- {
				a = append(a, pick(t, "sec", "server", "clients", "memory", "stats", "keyspace", "nosuch", "SERVER"))
			}
			return S("server", a...)
		case 14:
			return S("server", "COMMAND", "COUNT")
		case 15:
			a := []string{"COMMAND", "LIST"}
			a = c15Opt(t, "f", a, "FILTERBY", "PATTERN", pick(t, "pat", "l*", "h?et", "*scan", "zz*", "client*"))
			return S("server", a...)
		case 16, 17:
			a := []string{"COMMAND", pick(t, "di", "DOCS", "INFO")}
			for i := rapid.IntRange(1, 3).Draw(t, "nn"); i > 0; i-- {
				a = append(a, pick(t, "cn", "get", "hello", "lmpop", "sort", "set", "client|list", "nosuch", "hrandfield", "bitfield", "lcs", "sintercard"))
			}
			return S("server", a...)
		case 18:
			return S("server", "COMMAND", pick(t, "gk", "GETKEYS", "GETKEYSANDFLAGS"), "SET", "a", "b")
		case 19:
			if rapid.IntRange(0, 2).Draw(t, "full") == 0 {
				return S("server", "COMMAND", pick(t, "di", "DOCS", "INFO")) // every command: ~50-90 kB of nested maps
			}
			return S("server", "COMMAND", "HELP")
		case 20:
			return S("server", "DBSIZE")
		default:
			return S("server", "COMMAND", "DOCS", pick(t, "cn", "hgetall", "lpos", "multi", "exec"))
		}
	}
}

func c15Invalid(t *rapid.T) C15Step {
	return C15Step{Group: "invalid", Argv: kit.A(pick(t, "bad",
		[]string{"FOO"}, []string{"FOO", "bar", "baz"}, []string{"OBJECT", "ENCODING", "ks"}, []string{"SPOP", "kz"},
		[]string{"GET"}, []string{"SET", "ks"}, []string{"SET", "ks", "v", "BADOPT"}, []string{"SET", "ks", "v", "EX", "0"},
		[]string{"INCRBY", "ks", "abc"}, []string{"EXPIRE", "ks", "notanint"}, []string{"LPOP", "kl", "-1"},
		[]string{"LSET", "kl", "99", "q"}, []string{"LSET", "kmiss", "0", "q"}, []string{"INCR", "ks1"},
		[]string{"HINCRBY", "kh", "g", "1"}, []string{"RENAME", "kmiss", "x"}, []string{"LMPOP", "0", "LEFT"},
		[]string{"LINSERT", "kl", "MIDDLE", "a", "b"}, []string{"SINTERCARD", "5", "kz"}, []string{"CLIENT"},
		[]string{"COMMAND"}, []string{"HGETALL"}, []string{"get", "kl"}, []string{"SMEMBERS", "ks"},
		[]string{"EXEC", "x"}, []string{"COPY", "ks", "kdst", "DB", "3"}, []string{"SCAN", "abc"}, []string{"BITOP", "NOT", "d", "ks", "ks1"},
	)...)}
}

func c15Blocking(t *rapid.T) C15Step {
	k := pick(t, "bk", "kl", "kl2", "kmiss", "kmiss", "kl1", "ks")
	to := pick(t, "to", "0.001", "0.003")
	var a []string
	switch rapid.IntRange(0, 4).Draw(t, "blk") {
	case 0:
		a = []string{pick(t, "bp", "BLPOP", "BRPOP"), k, "kmiss2", to}
	case 1:
		a = []string{"BLMPOP", to, "2", "kmiss2", k, pick(t, "dir", "LEFT", "RIGHT"), "COUNT", "2"}
	case 2:
		a = []string{"BLMOVE", k, pick(t, "bd", "kl1", "bdst", "kz"), "LEFT", "RIGHT", to}
	case 3:
		a = []string{"BRPOPLPUSH", k, pick(t, "bd", "kl1", "bdst"), to}
	default:
		a = []string{"BLPOP", k, to}
	}
	return C15Step{Argv: kit.A(a...), Group: "blocking"}
}

// c15Plain draws one non-transaction step.
func c15Plain(t *rapid.T, inMulti bool) C15Step {
	var s C15Step
	switch weighted(t, "kind", []int{34, 30, 18, 4, 2}) {
	case 0:
		s = c15FromTable(t)
	case 1:
		s = c15Shapes(t)
	case 2:
		s = c15ConnCmd(t, inMulti)
	case 3:
		s = c15Invalid(t)
	default:
		s = c15Blocking(t)
	}
	if rapid.IntRange(0, 7).Draw(t, "rc") == 0 {
		s.Argv = append(kit.Argv{kit.S(randCase(t, string(s.Argv[0])))}, s.Argv[1:]...)
	}
	return s
}

func c15GenProg(t *rapid.T) []C15Step {
	T := func(a ...string) C15Step { return C15Step{Argv: kit.A(a...), Group: "transaction"} }
	n := rapid.IntRange(5, 40).Draw(t, "steps")
	var prog []C15Step
	inMulti := false
	for len(prog) < n {
		switch weighted(t, "top", []int{80, 9, 3, 3, 1}) {
		case 0:
			prog = append(prog, c15Plain(t, inMulti))
		case 1:
			// a transaction block; optionally made to abort through WATCH
			watch := !inMulti && rapid.IntRange(0, 3).Draw(t, "watch") == 0
			if watch {
				wk := pick(t, "wk", "ks", "kl", "kmiss", "kh")
				prog = append(prog, T("WATCH", wk, "ks1"))
				if rapid.Bool().Draw(t, "dirty") {
					prog = append(prog, C15Step{Argv: kit.A(pick(t, "touch", []string{"SET", wk, "w"}, []string{"DEL", wk}, []string{"APPEND", "ks1", "z"}, []string{"GET", wk})...), Group: "string"})
				}
			}
			prog = append(prog, T("MULTI"))
			inMulti = true
			for i := rapid.IntRange(1, 6).Draw(t, "inner"); i > 0; i-- {
				prog = append(prog, c15Plain(t, true))
			}
			switch rapid.IntRange(0, 19).Draw(t, "end") {
			case 0, 1:
				prog = append(prog, T("DISCARD"))
				inMulti = false
			case 2: // left open: the following steps are queued too
			default:
				prog = append(prog, T("EXEC"))
				inMulti = false
			}
		case 2:
			c := pick(t, "tx", "EXEC", "EXEC", "DISCARD", "UNWATCH", "MULTI")
			if c == "MULTI" && !inMulti {
				c = "EXEC" // a lone MULTI would queue the rest of the program
			}
			prog = append(prog, T(c))
			if c == "EXEC" || c == "DISCARD" {
				inMulti = false
			}
		case 3:
			prog = append(prog, T("WATCH", pick(t, "wk", "ks", "kl", "kmiss")))
		default:
			prog = append(prog, C15Step{Argv: kit.A("FLUSHDB"), Group: "server"})
		}
	}
	return prog
}

// unsupported / malformed HELLO arguments of part 2
var c15BadHello = [][]string{
	{"0"}, {"1"}, {"4"}, {"99"}, {"-1"}, {"9223372036854775807"}, {"abc"}, {"3.0"}, {""}, {"2x"}, {"3", "FOO"}, {"4", "SETNAME", "x"}, {"abc", "SETNAME", "x"},
}

var c15Probes = [][]string{
	{"HGETALL", "ph"}, {"HGETALL", "ph"}, {"LCS", "p1", "p2", "IDX"}, {"HINCRBYFLOAT", "pf", "f", "0.5"}, {"GET", "pmiss"},
	{"CLIENT", "INFO"}, {"HRANDFIELD", "ph", "5", "WITHVALUES"}, {"HELLO"}, {"MGET", "p1", "pmiss"},
}

func c15GenSwitch(t *rapid.T, nconn int) []C15Sw {
	n := rapid.IntRange(2, 24).Draw(t, "nsw")
	out := make([]C15Sw, 0, n)
	for i := 0; i < n; i++ {
		c := rapid.IntRange(0, nconn-1).Draw(t, "conn")
		var a []string
		switch weighted(t, "sw", []int{5, 5, 2, 5, 1, 8}) {
		case 0:
			a = []string{"HELLO", "3"}
		case 1:
			a = []string{"HELLO", "2"}
		case 2:
			a = []string{"HELLO"}
		case 3:
			a = append([]string{"HELLO"}, c15BadHello[rapid.IntRange(0, len(c15BadHello)-1).Draw(t, "bad")]...)
		case 4:
			a = []string{"HELLO", pick(t, "v", "2", "3"), "SETNAME", pick(t, "nm", "c1", "c2")}
		default:
			a = c15Probes[rapid.IntRange(0, len(c15Probes)-1).Draw(t, "probe")]
		}
		if a[0] == "HELLO" && rapid.IntRange(0, 5).Draw(t, "rc") == 0 {
			a = append([]string{randCase(t, "HELLO")}, a[1:]...)
		}
		out = append(out, C15Sw{Conn: c, Argv: kit.A(a...)})
	}
	return out
}

func c15Gen(t *rapid.T) C15Case {
	c := C15Case{Prog: c15GenProg(t)}
	c.NConn = rapid.IntRange(2, 3).Draw(t, "nconn")
	c.Switch = c15GenSwitch(t, c.NConn)
	return c
}

// ---- the down-conversion relation ------------------------------------------------------------------------

func c15IsStr2(a kit.Value) bool { return a.K == kit.KBulk || a.K == kit.KSimple }

// c15Match reports whether a (a RESP2 value) is the canonical down-conversion of b (a RESP3 value):
// map -> flat key/value array (pair order free: a map is unordered), list of pairs -> flat array, set ->
// array (order free), double / big number / verbatim -> string with the same text, boolean -> 0/1,
// null -> nil; everything else equal, same nesting, same order.
func c15Match(b, a kit.Value) bool {
	switch b.K {
	case kit.KNil:
		return a.K == kit.KNil
	case kit.KInt, kit.KBool:
		return a.K == kit.KInt && a.I == b.I
	case kit.KBulk, kit.KSimple, kit.KVerbatim, kit.KDouble, kit.KBig:
		return c15IsStr2(a) && a.S == b.S
	case kit.KErr, kit.KBlobErr:
		return a.K == kit.KErr && a.S == b.S
	case kit.KMap, kit.KAttr:
		return a.K == kit.KArr && len(a.A) == len(b.A) && c15MatchPairs(b.A, a.A)
	case kit.KSet:
		return a.K == kit.KArr && c15MatchMultiset(b.A, a.A)
	case kit.KArr, kit.KPush:
		if a.K != kit.KArr {
			return false
		}
		if len(a.A) == len(b.A) {
			ok := true
			for i := range b.A {
				if !c15Match(b.A[i], a.A[i]) {
					ok = false
					break
				}
			}
			if ok {
				return true
			}
		}
		// list of pairs -> flat key/value array
		if len(a.A) == 2*len(b.A) && len(b.A) > 0 {
			for i, p := range b.A {
				if p.K != kit.KArr || len(p.A) != 2 || !c15Match(p.A[0], a.A[2*i]) || !c15Match(p.A[1], a.A[2*i+1]) {
					return false
				}
			}
			return true
		}
		return false
	}
	return false
}

// c15MatchPairs matches flattened key/value sequences as multisets of pairs.
func c15MatchPairs(b, a []kit.Value) bool {
	if len(a) != len(b) || len(a)%2 != 0 {
		return false
	}
	used := make([]bool, len(a)/2)
outer:
	for i := 0; i+1 < len(b); i += 2 {
		for j := 0; j+1 < len(a); j += 2 {
			if !used[j/2] && c15Match(b[i], a[j]) && c15Match(b[i+1], a[j+1]) {
				used[j/2] = true
				continue outer
			}
		}
		return false
	}
	return true
}

func c15MatchMultiset(b, a []kit.Value) bool {
	if len(a) != len(b) {
		return false
	}
	used := make([]bool, len(a))
outer:
	for i := range b {
		for j := range a {
			if !used[j] && c15Match(b[i], a[j]) {
				used[j] = true
				continue outer
			}
		}
		return false
	}
	return true
}

// c15MatchUnordered: top-level aggregate whose element order is not defined.
func c15MatchUnordered(b, a kit.Value) bool {
	if a.K != kit.KArr || (b.K != kit.KArr && b.K != kit.KSet) {
		return c15Match(b, a)
	}
	return c15MatchMultiset(b.A, a.A)
}

// c15NilForm returns the first RESP2 nil form found inside a RESP3 reply ("" = none).
func c15NilForm(v kit.Value) string {
	if v.K == kit.KNil && v.NilForm != "_" {
		return v.NilForm
	}
	for _, e := range v.A {
		if f := c15NilForm(e); f != "" {
			return f
		}
	}
	return ""
}

// c15HasResp3 reports whether a value contains a RESP3-only type.
func c15HasResp3(v kit.Value) bool {
	switch v.K {
	case kit.KMap, kit.KSet, kit.KDouble, kit.KBool, kit.KBig, kit.KVerbatim, kit.KPush, kit.KAttr, kit.KBlobErr:
		return true
	case kit.KNil:
		return v.NilForm == "_"
	}
	for _, e := range v.A {
		if c15HasResp3(e) {
			return true
		}
	}
	return false
}

// c15Sig is the reply-shape signature: kind, and for aggregates the set of element signatures (depth 3).
func c15Sig(v kit.Value, depth int) string {
	switch v.K {
	case kit.KArr, kit.KMap, kit.KSet, kit.KPush, kit.KAttr:
		if depth <= 0 {
			return v.K.String()
		}
		seen := map[string]bool{}
		var parts []string
		for _, e := range v.A {
			s := c15Sig(e, depth-1)
			if !seen[s] {
				seen[s] = true
				parts = append(parts, s)
			}
		}
		sort.Strings(parts)
		return v.K.String() + "(" + strings.Join(parts, ",") + ")"
	case kit.KNil:
		if v.NilForm == "_" {
			return "null"
		}
		return "nil"
	}
	return v.K.String()
}

// ---- per-command comparison ------------------------------------------------------------------------------

func c15CmdName(argv []string) string {
	if len(argv) == 0 {
		return ""
	}
	n := upper(argv[0])
	if (n == "CLIENT" || n == "COMMAND") && len(argv) > 1 {
		n += " " + upper(argv[1])
	}
	return n
}

type c15Session struct {
	a, b     *kit.Conn
	idA, idB int64
	st       *kit.Stats
	queue    [][]string // commands that were answered QUEUED since the last MULTI
	inMulti  bool
	sigs     map[string]bool // "CMD:signature" set of the program
	resp3    bool            // some reply B contained a RESP3-only type
}

func c15Fields(line string) (keys []string, m map[string]string) {
	m = map[string]string{}
	for _, f := range strings.Fields(line) {
		k, v, _ := strings.Cut(f, "=")
		keys = append(keys, k)
		m[k] = v
	}
	return
}

// fields of a CLIENT INFO / CLIENT LIST line that must agree between two different clients running the
// same program; everything else (id, addr, fd, age, idle, db, resp, buffers, cmd ...) legitimately differs.
var c15SameFields = []string{"name", "user", "flags", "multi", "lib-name", "lib-ver"}

func c15CheckClientLine(who string, m map[string]string, id int64, db, proto int) error {
	if v, ok := m["id"]; ok && v != strconv.FormatInt(id, 10) {
		return fmt.Errorf("client line of %s has id=%s, CLIENT ID said %d", who, v, id)
	}
	if v, ok := m["db"]; ok && v != strconv.Itoa(db) {
		return fmt.Errorf("client line of %s has db=%s, selected was %d", who, v, db)
	}
	if v, ok := m["resp"]; ok && v != strconv.Itoa(proto) {
		return fmt.Errorf("client line of %s has resp=%s but the connection speaks RESP%d", who, v, proto)
	}
	return nil
}

func (s *c15Session) cmpClientInfo(rb, ra kit.Value) error {
	if !ra.IsString() || !rb.IsString() {
		return fmt.Errorf("not strings")
	}
	ka, ma := c15Fields(ra.S)
	kb, mb := c15Fields(rb.S)
	if strings.Join(ka, " ") != strings.Join(kb, " ") {
		return fmt.Errorf("field names differ: %v vs %v", ka, kb)
	}
	if err := c15CheckClientLine("A", ma, s.idA, 1, 2); err != nil {
		return err
	}
	if err := c15CheckClientLine("B", mb, s.idB, 2, 3); err != nil {
		return err
	}
	for _, k := range append([]string{"cmd"}, c15SameFields...) {
		if ma[k] != mb[k] {
			return fmt.Errorf("field %s: %q vs %q", k, ma[k], mb[k])
		}
	}
	return nil
}

func (s *c15Session) clientLines(text string) (map[string]map[string]string, error) {
	out := map[string]map[string]string{}
	if text != "" && !strings.HasSuffix(text, "\n") {
		return nil, fmt.Errorf("text does not end with LF")
	}
	for _, l := range strings.Split(text, "\n") {
		if strings.TrimSpace(l) == "" {
			continue
		}
		_, m := c15Fields(l)
		out[m["id"]] = m
	}
	return out, nil
}

func (s *c15Session) cmpClientList(rb, ra kit.Value) error {
	if !ra.IsString() || !rb.IsString() {
		return fmt.Errorf("not strings")
	}
	la, err := s.clientLines(ra.S)
	if err != nil {
		return fmt.Errorf("reply A: %v", err)
	}
	lb, err := s.clientLines(rb.S)
	if err != nil {
		return fmt.Errorf("reply B: %v", err)
	}
	// only the two clients of this case are compared: other lines may belong to connections of an
	// earlier emulator that are still being torn down
	for _, who := range []struct {
		n         string
		id        int64
		db, proto int
	}{{"A", s.idA, 1, 2}, {"B", s.idB, 2, 3}} {
		id := strconv.FormatInt(who.id, 10)
		xa, oka := la[id]
		xb, okb := lb[id]
		if !oka || !okb {
			return fmt.Errorf("client %s (id %s) listed: in reply A %v, in reply B %v", who.n, id, oka, okb)
		}
		for r, x := range map[string]map[string]string{"reply A": xa, "reply B": xb} {
			if err := c15CheckClientLine(who.n+" in "+r, x, who.id, who.db, who.proto); err != nil {
				return err
			}
		}
		for _, k := range c15SameFields {
			if xa[k] != xb[k] {
				return fmt.Errorf("client %s field %s: %q in reply A, %q in reply B", who.n, k, xa[k], xb[k])
			}
		}
	}
	return nil
}

func c15InfoKeys(text string) []string {
	var out []string
	for _, l := range strings.Split(text, "\r\n") {
		if k, _, ok := strings.Cut(l, ":"); ok {
			out = append(out, k)
		} else {
			out = append(out, l)
		}
	}
	return out
}

func c15PairMap(v kit.Value) (map[string]kit.Value, bool) {
	if (v.K != kit.KArr && v.K != kit.KMap) || len(v.A)%2 != 0 {
		return nil, false
	}
	m := map[string]kit.Value{}
	for i := 0; i+1 < len(v.A); i += 2 {
		if !v.A[i].IsString() {
			return nil, false
		}
		m[v.A[i].S] = v.A[i+1]
	}
	return m, len(m) == len(v.A)/2
}

// c15CheckHello checks one HELLO reply against the protocol it must be written in.
func c15CheckHello(v kit.Value, proto int, id int64) error {
	want := kit.KArr
	if proto == 3 {
		want = kit.KMap
	}
	if v.K != want {
		return fmt.Errorf("HELLO reply on a RESP%d connection is a %s, want %s: %s", proto, v.K, want, v)
	}
	m, ok := c15PairMap(v)
	if !ok {
		return fmt.Errorf("HELLO reply is not a key/value sequence: %s", v)
	}
	if p, ok := m["proto"]; !ok || p.K != kit.KInt || p.I != int64(proto) {
		return fmt.Errorf("HELLO reply announces proto %s on a RESP%d connection", p, proto)
	}
	if p, ok := m["id"]; !ok || p.K != kit.KInt || p.I != id {
		return fmt.Errorf("HELLO reply announces id %s, CLIENT ID said %d", p, id)
	}
	return nil
}

func (s *c15Session) cmpHello(rb, ra kit.Value) error {
	if err := c15CheckHello(ra, 2, s.idA); err != nil {
		return fmt.Errorf("A: %v", err)
	}
	if err := c15CheckHello(rb, 3, s.idB); err != nil {
		return fmt.Errorf("B: %v", err)
	}
	ma, _ := c15PairMap(ra)
	mb, _ := c15PairMap(rb)
	if len(ma) != len(mb) {
		return fmt.Errorf("different number of fields")
	}
	for k, vb := range mb {
		va, ok := ma[k]
		if !ok {
			return fmt.Errorf("field %q missing in reply A", k)
		}
		if k != "id" && k != "proto" && !c15Match(vb, va) {
			return fmt.Errorf("field %q: %s vs %s", k, va, vb)
		}
	}
	return nil
}

func c15AbsDiff(a, b int64) int64 {
	if a > b {
		return a - b
	}
	return b - a
}

// c15SameShape: replies of commands that pick at random agree in type and size only.
func c15SameShape(b, a kit.Value) bool {
	switch b.K {
	case kit.KNil:
		return a.K == kit.KNil
	case kit.KBulk, kit.KSimple, kit.KVerbatim:
		return c15IsStr2(a)
	case kit.KMap:
		return a.K == kit.KArr && len(a.A) == len(b.A)
	case kit.KArr, kit.KSet:
		if a.K != kit.KArr {
			return false
		}
		if len(a.A) == len(b.A) {
			ok := true
			for i := range b.A {
				ok = ok && c15SameShape(b.A[i], a.A[i])
			}
			if ok {
				return true
			}
		}
		if len(a.A) == 2*len(b.A) { // list of pairs -> flat
			for i, p := range b.A {
				if p.K != kit.KArr || len(p.A) != 2 || !c15SameShape(p.A[0], a.A[2*i]) || !c15SameShape(p.A[1], a.A[2*i+1]) {
					return false
				}
			}
			return true
		}
		return false
	}
	return c15Match(b, a)
}

// compare checks reply A (RESP2) against reply B (RESP3) of the same command.
func (s *c15Session) compare(argv []string, rb, ra kit.Value) error {
	generic := func() error {
		if !c15Match(rb, ra) {
			return fmt.Errorf("reply A is not the down-conversion of reply B")
		}
		return nil
	}
	if ra.IsErr() || rb.IsErr() {
		return generic()
	}
	name := c15CmdName(argv)
	switch name {
	case "LCS":
		// a map whose fields Redis sends in a fixed, documented order (matches, len): a RESP2
		// client reads the flat array by position, so the down-conversion keeps the order of the pairs
		if err := generic(); err != nil {
			return err
		}
		if rb.K == kit.KMap && ra.K == kit.KArr && len(ra.A) == len(rb.A) {
			for i := 0; i+1 < len(rb.A); i += 2 {
				if !c15Match(rb.A[i], ra.A[i]) {
					return fmt.Errorf("reply A lists the fields in another order than reply B (field %d is %s in B and %s in A)", i/2, rb.A[i], ra.A[i])
				}
			}
		}
		return nil
	case "SMEMBERS", "SINTER", "SUNION", "SDIFF", "HKEYS", "HVALS", "KEYS", "COMMAND LIST":
		if !c15MatchUnordered(rb, ra) {
			return fmt.Errorf("reply A is not the down-conversion of reply B (compared as multisets)")
		}
		return nil
	case "SORT":
		by, limit := false, false
		for _, x := range argv[1:] {
			by = by || upper(x) == "BY"
			limit = limit || upper(x) == "LIMIT"
		}
		switch {
		case by && limit: // ties in an undefined order, then a window over them: sizes only
			if !c15SameShape(rb, ra) {
				return fmt.Errorf("replies differ in type or size")
			}
			return nil
		case by: // equal weights: the order of ties is not defined
			if !c15MatchUnordered(rb, ra) {
				return fmt.Errorf("reply A is not the down-conversion of reply B (compared as multisets)")
			}
			return nil
		}
		return generic()
	case "SCAN", "HSCAN", "SSCAN":
		if ra.K != kit.KArr || rb.K != kit.KArr || len(ra.A) != 2 || len(rb.A) != 2 || !ra.A[0].IsString() || !rb.A[0].IsString() {
			return generic()
		}
		ea, eb := ra.A[1], rb.A[1]
		if ea.K != kit.KArr || (eb.K != kit.KArr && eb.K != kit.KMap && eb.K != kit.KSet) {
			return fmt.Errorf("element lists: %s vs %s", ea.K, eb.K)
		}
		if ra.A[0].S != "0" || rb.A[0].S != "0" {
			return nil // partial pages of two different tables: shape only
		}
		if name == "HSCAN" {
			if !c15MatchPairs(eb.A, ea.A) {
				return fmt.Errorf("field/value pairs differ")
			}
			return nil
		}
		if !c15MatchMultiset(eb.A, ea.A) {
			return fmt.Errorf("elements differ (compared as multisets)")
		}
		return nil
	case "SRANDMEMBER", "HRANDFIELD", "RANDOMKEY":
		if !c15SameShape(rb, ra) {
			return fmt.Errorf("random picks differ in type or size")
		}
		return nil
	case "TTL", "PTTL", "EXPIRETIME", "PEXPIRETIME":
		if ra.K != kit.KInt || rb.K != kit.KInt {
			return generic()
		}
		if ra.I < 0 || rb.I < 0 {
			return generic()
		}
		tol := int64(5)
		if name[0] == 'P' {
			tol = 5000
		}
		if c15AbsDiff(ra.I, rb.I) > tol {
			return fmt.Errorf("times differ by more than %d", tol)
		}
		return nil
	case "DUMP":
		if !c15SameShape(rb, ra) {
			return fmt.Errorf("types differ")
		}
		return nil
	case "CLIENT ID":
		if ra.K != kit.KInt || rb.K != kit.KInt || ra.I != s.idA || rb.I != s.idB {
			return fmt.Errorf("CLIENT ID changed (A was %d, B was %d)", s.idA, s.idB)
		}
		return nil
	case "CLIENT INFO":
		return s.cmpClientInfo(rb, ra)
	case "CLIENT LIST":
		return s.cmpClientList(rb, ra)
	case "HELLO":
		return s.cmpHello(rb, ra)
	case "INFO":
		if !ra.IsString() || !rb.IsString() {
			return generic()
		}
		ka, kb := c15InfoKeys(ra.S), c15InfoKeys(rb.S)
		for i := 0; i < len(ka) || i < len(kb); i++ {
			if i >= len(ka) || i >= len(kb) || ka[i] != kb[i] {
				return fmt.Errorf("INFO texts differ at line %d (%d vs %d lines): %q vs %q", i, len(ka), len(kb), append(ka, "")[min(i, len(ka))], append(kb, "")[min(i, len(kb))])
			}
		}
		return nil
	case "EXEC":
		if ra.K == kit.KArr && rb.K == kit.KArr && len(ra.A) == len(rb.A) && len(ra.A) == len(s.queue) {
			for i, q := range s.queue {
				if err := s.compare(q, rb.A[i], ra.A[i]); err != nil {
					return fmt.Errorf("element %d (%s): %v: A=%s B=%s", i, kit.A(q...), err, ra.A[i], rb.A[i])
				}
			}
			return nil
		}
		return generic()
	}
	return generic()
}

// ---- runner ----------------------------------------------------------------------------------------------

func c15Subst(argv []string, proto int, idA, idB int64) []string {
	out := make([]string, len(argv))
	for i, a := range argv {
		switch a {
		case c15PhProto:
			a = strconv.Itoa(proto)
		case c15PhIDA:
			a = strconv.FormatInt(idA, 10)
		case c15PhIDB:
			a = strconv.FormatInt(idB, 10)
		}
		out[i] = a
	}
	return out
}

func c15Raw(c *kit.Conn) string {
	b := c.Raw.Bytes()
	if len(b) > 400 {
		return fmt.Sprintf("%q...(%d bytes)", b[:400], len(b))
	}
	return fmt.Sprintf("%q", b)
}

func c15Do(c *kit.Conn, argv []string) (kit.Value, error) {
	c.KeepRaw = true
	c.Raw.Reset()
	return c.Do(argv...)
}

var c15TxCmds = map[string]bool{"MULTI": true, "EXEC": true, "DISCARD": true, "WATCH": true}

// step executes one command on A and on B and applies the oracle.
func (s *c15Session) step(i int, tmplArgv []string, group string) error {
	if id := c15Excluded(tmplArgv); id != "" {
		s.st.Exclude(id)
		return nil
	}
	name := c15CmdName(tmplArgv)
	if name == "CLIENT LIST" && s.inMulti {
		s.st.Class("skipped:client-list-inside-multi")
		return nil
	}
	argvA := c15Subst(tmplArgv, 2, s.idA, s.idB)
	argvB := c15Subst(tmplArgv, 3, s.idA, s.idB)
	where := fmt.Sprintf("step %d %s", i, kit.A(tmplArgv...))

	ra, err := c15Do(s.a, argvA)
	if err != nil {
		return fmt.Errorf("%s: RESP2 connection A: %v", where, err)
	}
	rb, err := c15Do(s.b, argvB)
	if err != nil {
		return fmt.Errorf("%s: RESP3 connection B: %v (reply A was %s)", where, err, c15Raw(s.a))
	}
	if f := c15NilForm(rb); f != "" {
		if !c15TolerateNull() {
			return fmt.Errorf("%s: RESP3 connection B received the RESP2 null %q: B=%s", where, f, c15Raw(s.b))
		}
		s.st.Exclude(c15KfNull)
	}
	// a command queued by MULTI is answered +QUEUED whatever it is; its real reply is compared in EXEC
	queued := ra.K == kit.KSimple && ra.S == c15Queued && rb.K == kit.KSimple && rb.S == c15Queued && !c15TxCmds[name]
	if !queued {
		err = s.compare(tmplArgv, rb, ra)
	}
	if err != nil {
		return fmt.Errorf("%s: %v\n  A (RESP2) = %s  bytes %s\n  B (RESP3) = %s  bytes %s", where, err, ra, c15Raw(s.a), rb, c15Raw(s.b))
	}

	// transaction tracking (from the replies, which agree at this point)
	execQueue := s.queue
	switch {
	case queued:
		s.queue = append(s.queue, tmplArgv)
		s.inMulti = true
	case name == "MULTI" && !ra.IsErr():
		s.queue, s.inMulti = nil, true
	case name == "EXEC" && ra.K == kit.KArr, name == "DISCARD" && !ra.IsErr():
		s.queue, s.inMulti = nil, false
	case !c15TxCmds[name] && !ra.IsErr():
		s.inMulti = false // executed at once: the connection is not inside MULTI
	}

	// evidence
	sig := c15Sig(rb, 3)
	if group != "" {
		s.st.Class("group:" + group)
		switch {
		case queued: // the real reply is classified when EXEC delivers it
		case name == "EXEC" && rb.K == kit.KArr:
			for j, e := range rb.A {
				s.st.Class("shape-inside-exec:" + c15Sig(e, 1))
				if len(execQueue) == len(rb.A) {
					s.sigs[c15CmdName(execQueue[j])+":"+c15Sig(e, 3)] = true
				}
			}
			s.sigs[name+":"+sig] = true
		default:
			s.st.Class("shape:" + c15Sig(rb, 1))
			s.sigs[name+":"+sig] = true
		}
		if c15HasResp3(rb) {
			s.resp3 = true
			s.st.Class("reply-with-resp3-only-type")
		}
		if s.inMulti && queued {
			s.st.Class("queued-inside-multi")
		}
		if name == "EXEC" && ra.K == kit.KArr {
			s.st.Class("exec-array")
		}
	}
	return nil
}

const c15Queued = "QUEUED"

// ---- part 2: HELLO switching --------------------------------------------------------------------------------

type c15SwConn struct {
	c     *kit.Conn
	id    int64
	proto int // model
	incr  int // number of HINCRBYFLOAT probes done (each adds 0.5)
}

func (sc *c15SwConn) setProto(p int) {
	sc.proto = p
	if p == 3 {
		sc.c.Proto = c15P3()
	} else {
		sc.c.Proto = 2
	}
}

// c15CheckNil3 applies the RESP3 nil rule to a reply received on a model-RESP3 connection.
func c15CheckNil3(sc *c15SwConn, v kit.Value, st *kit.Stats) error {
	if sc.proto != 3 {
		return nil
	}
	if f := c15NilForm(v); f != "" {
		if !c15TolerateNull() {
			return fmt.Errorf("RESP3 connection received the RESP2 null %q", f)
		}
		st.Exclude(c15KfNull)
	}
	return nil
}

// c15Probe sends a probe and checks that the reply is written in the protocol the model says.
func c15Probe(sc *c15SwConn, argv []string, st *kit.Stats) error {
	v, err := c15Do(sc.c, argv)
	if err != nil {
		return fmt.Errorf("%v", err)
	}
	if err := c15CheckNil3(sc, v, st); err != nil {
		return err
	}
	p3 := sc.proto == 3
	bad := func(what string) error {
		return fmt.Errorf("the model says RESP%d but %s: %s bytes %s", sc.proto, what, v, c15Raw(sc.c))
	}
	switch c15CmdName(argv) {
	case "HGETALL":
		want := kit.Value{K: kit.KMap, A: []kit.Value{kit.Bulk("f"), kit.Bulk("1"), kit.Bulk("g"), kit.Bulk("x")}}
		if p3 != (v.K == kit.KMap) || (!p3 && v.K != kit.KArr) {
			return bad("HGETALL replied a " + v.K.String())
		}
		if !c15MatchPairs(want.A, v.Canon().A) {
			return bad("HGETALL content is wrong")
		}
	case "LCS":
		if p3 != (v.K == kit.KMap) || (!p3 && v.K != kit.KArr) {
			return bad("LCS IDX replied a " + v.K.String())
		}
		m, ok := c15PairMap(v)
		if !ok || m["len"].K != kit.KInt || m["len"].I != 6 || m["matches"].K != kit.KArr {
			return bad("LCS IDX content is wrong")
		}
	case "HINCRBYFLOAT":
		sc.incr++
		want := strconv.FormatFloat(0.5*float64(sc.incr), 'f', -1, 64)
		if p3 != (v.K == kit.KDouble) || (!p3 && !c15IsStr2(v)) {
			return bad("HINCRBYFLOAT replied a " + v.K.String())
		}
		if v.S != want {
			return bad("HINCRBYFLOAT value is not " + want)
		}
	case "GET":
		if v.K != kit.KNil {
			return bad("GET of a missing key is not nil")
		}
		if !p3 && v.NilForm == "_" {
			return bad("nil is written as RESP3 null")
		}
	case "MGET":
		if v.K != kit.KArr || len(v.A) != 2 || v.A[0].K != kit.KBulk || v.A[1].K != kit.KNil {
			return bad("MGET content is wrong")
		}
	case "CLIENT INFO":
		if !v.IsString() {
			return bad("CLIENT INFO is not a string")
		}
		_, m := c15Fields(v.S)
		if err := c15CheckClientLine("this connection", m, sc.id, 0, sc.proto); err != nil {
			return err
		}
	case "HRANDFIELD":
		if v.K != kit.KArr {
			return bad("HRANDFIELD WITHVALUES replied a " + v.K.String())
		}
		flat := v
		if p3 {
			if len(v.A) != 2 {
				return bad("HRANDFIELD 5 WITHVALUES of a 2-field hash is not a list of 2 pairs")
			}
			flat = kit.Value{K: kit.KArr}
			for _, p := range v.A {
				if p.K != kit.KArr || len(p.A) != 2 {
					return bad("HRANDFIELD WITHVALUES element is not a pair")
				}
				flat.A = append(flat.A, p.A...)
			}
		}
		if !c15MatchPairs([]kit.Value{kit.Bulk("f"), kit.Bulk("1"), kit.Bulk("g"), kit.Bulk("x")}, flat.A) {
			return bad("HRANDFIELD WITHVALUES content is wrong")
		}
	case "HELLO":
		if v.IsErr() {
			return bad("HELLO without arguments is refused")
		}
		return c15CheckHello(v, sc.proto, sc.id)
	}
	return nil
}

func c15RunSwitch(emu *kit.Emu, c C15Case, st *kit.Stats, others func() error) error {
	setup := emu.Dial()
	for _, cmd := range [][]string{{"HSET", "ph", "f", "1", "g", "x"}, {"SET", "p1", "ohmytext"}, {"SET", "p2", "mynewtext"}} {
		if v, err := setup.Do(cmd...); err != nil || v.IsErr() {
			return fmt.Errorf("part 2 setup %v: %v %v", cmd, v, err)
		}
	}
	n := c.NConn
	if n < 1 {
		n = 1
	}
	conns := make([]*c15SwConn, n)
	for i := range conns {
		sc := &c15SwConn{c: emu.Dial(), proto: 2}
		v, err := sc.c.Do("CLIENT", "ID")
		if err != nil || v.K != kit.KInt {
			return fmt.Errorf("part 2: CLIENT ID: %v %v", v, err)
		}
		sc.id = v.I
		conns[i] = sc
	}
	switched := map[int]bool{}
	for i, op := range c.Switch {
		if op.Conn < 0 || op.Conn >= n || len(op.Argv) == 0 {
			continue
		}
		argv := op.Argv.Strs()
		if id := c15Excluded(argv); id != "" {
			st.Exclude(id)
			continue
		}
		sc := conns[op.Conn]
		where := fmt.Sprintf("part 2 op %d conn %d (model RESP%d) %s", i, op.Conn, sc.proto, op.Argv)
		if upper(argv[0]) != "HELLO" {
			// the HINCRBYFLOAT probe works on a key of its own connection
			if upper(argv[0]) == "HINCRBYFLOAT" {
				argv = []string{"HINCRBYFLOAT", "pf" + strconv.Itoa(op.Conn), "f", "0.5"}
			}
			if err := c15Probe(sc, argv, st); err != nil {
				return fmt.Errorf("%s: %v", where, err)
			}
			st.Class(fmt.Sprintf("probe:%s@resp%d", c15CmdName(argv), sc.proto))
			continue
		}
		if len(argv) == 1 {
			if err := c15Probe(sc, argv, st); err != nil {
				return fmt.Errorf("%s: %v", where, err)
			}
			st.Class(fmt.Sprintf("hello:no-arg@resp%d", sc.proto))
			continue
		}
		old := sc.proto
		supported := (argv[1] == "2" || argv[1] == "3") && (len(argv) == 2 || (len(argv) == 4 && upper(argv[2]) == "SETNAME"))
		if supported {
			// the reply is written in the NEW protocol
			sc.setProto(int(argv[1][0] - '0'))
		}
		v, err := c15Do(sc.c, argv)
		if err != nil {
			return fmt.Errorf("%s: %v", where, err)
		}
		if supported {
			if v.IsErr() {
				return fmt.Errorf("%s: supported protocol version refused: %s", where, v)
			}
			if err := c15CheckHello(v, sc.proto, sc.id); err != nil {
				return fmt.Errorf("%s: %v; bytes %s", where, err, c15Raw(sc.c))
			}
			st.Class(fmt.Sprintf("hello:%d->%d", old, sc.proto))
			if old != sc.proto {
				switched[op.Conn] = true
			}
		} else {
			if !v.IsErr() {
				return fmt.Errorf("%s: unsupported protocol version is not refused: reply %s bytes %s", where, v, c15Raw(sc.c))
			}
			st.Class(fmt.Sprintf("hello:refused@resp%d:%s", sc.proto, v.ErrClass()))
		}
		// after every HELLO every connection is probed: the one that issued it must speak what the model
		// says, and no other connection may have changed
		for j, o := range conns {
			if err := c15Probe(o, []string{"HGETALL", "ph"}, st); err != nil {
				return fmt.Errorf("%s: afterwards conn %d (model RESP%d): %v", where, j, o.proto, err)
			}
		}
		if err := others(); err != nil {
			return fmt.Errorf("%s: afterwards: %v", where, err)
		}
	}
	if len(switched) >= 2 {
		st.Class("switch:>=2-connections-switched")
	}
	return nil
}

// ---- the property ----------------------------------------------------------------------------------------

func c15Run(c C15Case, st *kit.Stats) error {
	emu := kit.StartEmu("")
	defer emu.Stop()
	s := &c15Session{a: emu.Dial(), b: emu.Dial(), st: st, sigs: map[string]bool{}}

	// handshake: A stays RESP2 on db 1, B switches to RESP3 and works on db 2
	if v, err := s.a.Do("SELECT", "1"); err != nil || v.IsErr() {
		return fmt.Errorf("A: SELECT 1: %v %v", v, err)
	}
	s.b.Proto = c15P3()
	hv, err := c15Do(s.b, []string{"HELLO", "3"})
	if err != nil {
		return fmt.Errorf("B: HELLO 3: %v", err)
	}
	if hv.IsErr() {
		return fmt.Errorf("B: HELLO 3 refused: %s", hv)
	}
	if v, err := s.b.Do("SELECT", "2"); err != nil || v.IsErr() {
		return fmt.Errorf("B: SELECT 2: %v %v", v, err)
	}
	for _, x := range []struct {
		c  *kit.Conn
		id *int64
	}{{s.a, &s.idA}, {s.b, &s.idB}} {
		v, err := x.c.Do("CLIENT", "ID")
		if err != nil || v.K != kit.KInt {
			return fmt.Errorf("CLIENT ID: %v %v", v, err)
		}
		*x.id = v.I
	}
	if err := c15CheckHello(hv, 3, s.idB); err != nil {
		return fmt.Errorf("B: HELLO 3: %v; bytes %s", err, c15Raw(s.b))
	}

	// part 1
	for i, cmd := range c15Setup() {
		if err := s.step(-1-i, cmd, ""); err != nil {
			return fmt.Errorf("setup: %v", err)
		}
	}
	for i, stp := range c.Prog {
		if len(stp.Argv) == 0 {
			continue
		}
		if err := s.step(i, stp.Argv.Strs(), stp.Group); err != nil {
			return err
		}
	}

	// part 2; A and B stay open and must keep their protocols whatever the other connections do
	others := func() error {
		if s.inMulti {
			return nil // the program left A and B inside MULTI: a probe would only be queued
		}
		for _, x := range []struct {
			n     string
			c     *kit.Conn
			id    int64
			proto int
		}{{"A", s.a, s.idA, 2}, {"B", s.b, s.idB, 3}} {
			v, err := c15Do(x.c, []string{"HELLO"})
			if err != nil {
				return fmt.Errorf("connection %s of part 1: %v", x.n, err)
			}
			if err := c15CheckHello(v, x.proto, x.id); err != nil {
				return fmt.Errorf("connection %s of part 1: %v; bytes %s", x.n, err, c15Raw(x.c))
			}
		}
		return nil
	}
	if err := c15RunSwitch(emu, c, st, others); err != nil {
		return err
	}

	if s.resp3 {
		keys := make([]string, 0, len(s.sigs))
		for k := range s.sigs {
			keys = append(keys, k)
		}
		sort.Strings(keys)
		sample := map[string]any{"signatures": keys}
		prog := make([]string, len(c.Prog))
		for i, p := range c.Prog {
			prog[i] = p.Argv.String()
		}
		sample["program"] = prog
		st.NonTrivial(strings.Join(keys, "\n"), sample)
	}
	return nil
}

func TestC15(t *testing.T) {
	kit.Check(t, kit.Prop[C15Case]{ID: "C15", Gen: c15Gen, Run: c15Run})
}
