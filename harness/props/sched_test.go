//go:build verif

package props

import (
	"fmt"
	"sort"
	"strconv"
	"strings"
	"sync"
	"time"

	redisemu "github.com/jimsnab/go-redisemu"

	"verifharness/kit"
	"verifharness/model"
)

// Scheduler over the `verif` schedule points of the block/wake protocol: the harness decides which
// parked client proceeds, so the whole run is sequential (one emulator goroutine between two
// quiescent points) and a sequential model applies every atomic step.

const schedLiveness = 8 * time.Second

type blocker struct {
	idx      int
	conn     *kit.Conn
	id       int64 // emulator client id
	argv     []string
	keys     []string // keys the command waits on
	state    string   // "idle", "parked", "select", "dead"
	point    string   // park point when state == parked
	wsid     int      // wake signal number of the current registration
	token    bool     // a wake token was sent and not yet consumed
	parkCh   chan string
	resumeCh chan struct{}
	replyCh  chan schedReply
	started  int // sequence number of the block start (for longest-blocked order)
}

type schedReply struct {
	v   kit.Value
	err error
}

type sched struct {
	mu       sync.Mutex
	byID     map[int64]*blocker
	wakes    []int   // wake-sent events since last drain (ws ids)
	posted   []int64 // unblock-posted client ids
	dropped  []int64 // unblock-dropped client ids
	emu      *kit.Emu
	srv      *model.Server
	sess     []*model.Session // [0..n) blockers, then actor sessions
	blockers []*blocker
	waiting  map[string][]*blocker // registered waiters per key (harness view)
	st       *kit.Stats
	seq      int
	log      []string
	flags    map[string]int
	left     []string // keys of blocked commands that completed since the last drain (see drainWakes)
	draining bool
	// strictHandOn (C11): wake-ups handed on by a completed command are accounted at once and must go to the longest
	// waiters of non-empty lists; otherwise (C12, whose scenarios deliver pushes and unblock signals outside this
	// accounting) a wake-up beyond the owed ones is accepted whenever it goes to a client that is blocked
	strictHandOn bool
	// deferLeave: the caller of await drains itself right after (it first has to apply the completed command to the model)
	deferLeave bool
}

func (s *sched) logf(f string, a ...any) {
	if len(s.log) < 400 {
		s.log = append(s.log, fmt.Sprintf(f, a...))
	}
}

func (s *sched) hook(point string, id int64, n int) {
	switch point {
	case "wake-sent":
		s.mu.Lock()
		s.wakes = append(s.wakes, n)
		s.mu.Unlock()
		return
	case "unblock-posted":
		s.mu.Lock()
		s.posted = append(s.posted, id)
		s.mu.Unlock()
		return
	case "unblock-dropped":
		s.mu.Lock()
		s.dropped = append(s.dropped, id)
		s.mu.Unlock()
		return
	}
	if strings.HasPrefix(point, "save-") {
		return
	}
	s.mu.Lock()
	b := s.byID[id]
	s.mu.Unlock()
	if b == nil {
		return
	}
	if point == "after-register" {
		b.wsid = n
	}
	b.parkCh <- point
	<-b.resumeCh
}

func newSched(st *kit.Stats, nBlockers int) (*sched, error) {
	s := &sched{byID: map[int64]*blocker{}, waiting: map[string][]*blocker{}, st: st, flags: map[string]int{}}
	s.emu = kit.StartEmu("")
	s.srv = model.NewServer()
	for i := 0; i < nBlockers; i++ {
		c := s.emu.Dial()
		v, err := c.Do("CLIENT", "ID")
		if err != nil || v.K != kit.KInt {
			return nil, fmt.Errorf("CLIENT ID: %v %v", v, err)
		}
		b := &blocker{idx: i, conn: c, id: v.I, state: "idle", parkCh: make(chan string, 4), resumeCh: make(chan struct{}, 1), replyCh: make(chan schedReply, 1)}
		s.blockers = append(s.blockers, b)
		s.byID[v.I] = b
		s.sess = append(s.sess, model.NewSession(i))
	}
	redisemu.SetVerifHook(s.hook)
	return s, nil
}

func (s *sched) close() {
	redisemu.SetVerifHook(nil)
	// unpark everything so that no emulator goroutine stays blocked in the hook; a goroutine that
	// loaded the hook just before it was removed may park once more, so keep feeding for a moment
	s.emu.CloseConns()
	for i := 0; i < 30; i++ {
		for _, b := range s.blockers {
			select {
			case b.resumeCh <- struct{}{}:
			default:
			}
			select {
			case <-b.parkCh:
			default:
			}
		}
		time.Sleep(100 * time.Microsecond)
	}
	s.emu.E.Close()
}

// blockKeys extracts the keys a blocking command waits on.
func blockKeys(argv []string) []string {
	switch upper(argv[0]) {
	case "BLPOP", "BRPOP":
		return argv[1 : len(argv)-1]
	case "BLMOVE", "BRPOPLPUSH":
		return argv[1:2]
	case "BLMPOP":
		n, _ := strconv.Atoi(argv[2])
		if 3+n <= len(argv) {
			return argv[3 : 3+n]
		}
	}
	return nil
}

// await waits for the next thing blocker b does: it parks at a point, or its command completes.
func (s *sched) await(b *blocker) (point string, rep *schedReply, err error) {
	select {
	case p := <-b.parkCh:
		b.state, b.point = "parked", p
		s.logf("  c%d parked at %s", b.idx, p)
		if p == "after-register" {
			s.register(b)
		}
		return p, nil, nil
	case r := <-b.replyCh:
		s.unregister(b)
		b.state, b.token = "idle", false
		s.left = append(s.left, b.keys...)
		if s.strictHandOn && !s.draining && !s.deferLeave {
			// account for the wake-ups the completed command handed on, while the model still is in the state they were sent in
			s.draining = true
			derr := s.drainWakes(fmt.Sprintf("completion of c%d %v", b.idx, b.argv), nil, nil)
			s.draining = false
			if derr != nil {
				return "", &r, derr
			}
		}
		s.logf("  c%d completed: %s %v", b.idx, r.v, r.err)
		return "", &r, nil
	case <-time.After(schedLiveness):
		return "", nil, fmt.Errorf("client c%d (%v) made no progress for %v", b.idx, b.argv, schedLiveness)
	}
}

func (s *sched) register(b *blocker) {
	if b.started == 0 {
		// "blocked since": the moment the server registered the client as waiting
		s.seq++
		b.started = s.seq
	}
	for _, k := range b.keys {
		present := false
		for _, x := range s.waiting[k] {
			if x == b {
				present = true
			}
		}
		if !present {
			s.waiting[k] = append(s.waiting[k], b)
		}
	}
}

func (s *sched) unregister(b *blocker) {
	for k, l := range s.waiting {
		var nl []*blocker
		for _, x := range l {
			if x != b {
				nl = append(nl, x)
			}
		}
		s.waiting[k] = nl
	}
}

// expectedWakes: the waiters a push of n elements onto key must wake: the longest-blocked first.
func (s *sched) expectedWakes(key string, n int) []*blocker {
	l := append([]*blocker(nil), s.waiting[key]...)
	sort.Slice(l, func(i, j int) bool { return l[i].started < l[j].started })
	if len(l) > n {
		l = l[:n]
	}
	return l
}

// drainWakes processes the wake-sent events of the step that just ran. pushed maps key -> number of
// elements pushed by that step (in order of the pushes).
func (s *sched) drainWakes(what string, pushedKeys []string, pushedN []int) error {
	s.mu.Lock()
	wakes := s.wakes
	s.wakes = nil
	s.mu.Unlock()
	left := s.left
	s.left = nil
	// who was waiting for the keys of completed commands before this step's wake-ups are accounted
	expectedBefore := map[string][]*blocker{}
	for _, k := range left {
		expectedBefore[k] = s.expectedWakes(k, 1<<30)
	}
	var expect []*blocker
	for i, k := range pushedKeys {
		for _, b := range s.expectedWakes(k, pushedN[i]) {
			dup := false
			for _, e := range expect {
				if e == b {
					dup = true
				}
			}
			if !dup {
				expect = append(expect, b)
				s.unregister(b) // a woken waiter leaves every list it is in
			}
		}
	}
	var got []*blocker
	for _, ws := range wakes {
		var who *blocker
		for _, b := range s.blockers {
			if b.wsid == ws && b.state != "idle" {
				who = b
			}
		}
		if who == nil {
			return fmt.Errorf("%s: a wake-up was sent to wake signal %d, which belongs to no blocked client", what, ws)
		}
		got = append(got, who)
		who.token = true
		s.unregister(who)
	}
	names := func(l []*blocker) string {
		var p []string
		for _, b := range l {
			p = append(p, "c"+strconv.Itoa(b.idx))
		}
		return "[" + strings.Join(p, " ") + "]"
	}
	if len(got) < len(expect) {
		return fmt.Errorf("%s: woke %s, but the longest-blocked waiters that must be served are %s", what, names(got), names(expect))
	}
	for i := range expect {
		if got[i] != expect[i] {
			return fmt.Errorf("%s: woke %s, but the longest-blocked waiters that must be served are %s (order matters)", what, names(got), names(expect))
		}
	}
	// wake-ups beyond the ones the pushes owe: a blocked command that completed may hand on a wake-up it
	// received for an element it did not take. Such wake-ups are not owed, but they are only right for the
	// longest waiters of lists that are not empty, in that order.
	if extra := got[len(expect):]; len(extra) > 0 {
		var allowed []*blocker
		for _, k := range left {
			n := 0
			if o := s.srv.DBs[0].Keys[k]; o != nil && o.T == model.TList {
				n = len(o.List)
			}
			for _, b := range expectedBefore[k] {
				if n == 0 {
					break
				}
				dup := false
				for _, e := range append(allowed, expect...) {
					dup = dup || e == b
				}
				if !dup {
					allowed = append(allowed, b)
					n--
				}
			}
		}
		ok := len(extra) <= len(allowed)
		for i := 0; ok && i < len(extra); i++ {
			ok = extra[i] == allowed[i]
		}
		if !ok && s.strictHandOn {
			return fmt.Errorf("%s: woke %s; %s are owed by the pushes, and beyond them only %s (waiters of non-empty lists that a completed command had been waiting on, longest first) may be woken", what, names(got), names(expect), names(allowed))
		}
		s.st.Class("wake-up-handed-on-by-a-completed-command")
	}
	if len(got) >= 2 {
		s.flags["multiwake"]++
		s.st.Class("one-push-woke-several-waiters")
	}
	// woken clients that sit in select surface at woke-ready
	for _, b := range got {
		if b.state == "select" {
			p, rep, err := s.await(b)
			if err != nil {
				return err
			}
			if rep != nil || p != "woke-ready" {
				return fmt.Errorf("%s: woken client c%d did not surface at woke-ready (point %q, reply %v)", what, b.idx, p, rep)
			}
		}
	}
	return nil
}

// pushesOf tells which keys a (non-blocking form of a) command pushes to and how many elements.
func pushesOf(argv []string, served bool) ([]string, []int) {
	switch upper(argv[0]) {
	case "LPUSH", "RPUSH":
		return []string{argv[1]}, []int{len(argv) - 2}
	case "LPUSHX", "RPUSHX":
		if served {
			return []string{argv[1]}, []int{len(argv) - 2}
		}
	case "LMOVE", "RPOPLPUSH", "BLMOVE", "BRPOPLPUSH":
		if served {
			return []string{argv[2]}, []int{1}
		}
	}
	return nil, nil
}

// runOp: blocker b runs its operation now (released from after-register / woke-ready); the model decides.
func (s *sched) resume(b *blocker) error {
	from := b.point
	opRuns := from == "after-register" || from == "woke-ready"
	var exp model.Exp
	served := false
	n := nowMs()
	tm := model.Time{Lo: n, Hi: n + 1}
	if opRuns {
		exp, served = s.srv.TryBlocking(s.sess, s.sess[b.idx], b.argv, tm)
		if from == "woke-ready" {
			b.token = false
			if !served {
				s.flags["stolen"]++
				s.st.Class("element-taken-between-wake-and-retry")
			}
		}
	}
	b.state = "running"
	b.resumeCh <- struct{}{}
	s.logf("release c%d from %s", b.idx, from)
	if from == "before-wait" {
		b.state = "select"
		if b.token {
			p, rep, err := s.await(b)
			if err != nil {
				return err
			}
			if rep != nil || p != "woke-ready" {
				return fmt.Errorf("client c%d had a pending wake-up but did not surface at woke-ready (point %q)", b.idx, p)
			}
		}
		return nil
	}
	s.deferLeave = opRuns // the wake-ups of this step are drained below, together with the pushes of the command itself
	p, rep, err := s.await(b)
	s.deferLeave = false
	if err != nil {
		return err
	}
	if opRuns {
		if served {
			if rep == nil {
				return fmt.Errorf("client c%d %v: an element was available when it retried (model: %s) but it went on blocking (parked at %s)", b.idx, b.argv, exp, p)
			}
			if rep.err != nil {
				return fmt.Errorf("client c%d %v: %v", b.idx, b.argv, rep.err)
			}
			if err := exp.Match(rep.v); err != nil {
				return fmt.Errorf("client c%d %v: %v", b.idx, b.argv, err)
			}
			s.st.Class("blocked-client-served")
		} else if rep != nil {
			return fmt.Errorf("client c%d %v completed with %s although the model has nothing to serve it with", b.idx, b.argv, rep.v)
		}
		pk, pn := pushesOf(b.argv, served)
		if err := s.drainWakes(fmt.Sprintf("retry of c%d %v", b.idx, b.argv), pk, pn); err != nil {
			return err
		}
	} else if rep != nil && from != "woke-unblock" && from != "woke-timer" {
		return fmt.Errorf("client c%d %v completed with %s right after %s", b.idx, b.argv, rep.v, from)
	}
	return nil
}

// start issues a blocking command on an idle blocker.
func (s *sched) start(b *blocker, argv []string) error {
	b.argv, b.keys = argv, blockKeys(argv)
	b.started = 0 // set when the block is established (first registration)
	b.wsid, b.token = -1, false
	n := nowMs()
	exp, served := s.srv.TryBlocking(s.sess, s.sess[b.idx], argv, model.Time{Lo: n, Hi: n + 1})
	if err := b.conn.Write(kit.EncodeCmd(argv...)); err != nil {
		return err
	}
	b.state = "running"
	go func() {
		v, err := b.conn.Read(10 * time.Minute)
		b.replyCh <- schedReply{v, err}
	}()
	s.logf("start c%d %v", b.idx, argv)
	s.deferLeave = served
	p, rep, err := s.await(b)
	s.deferLeave = false
	if err != nil {
		return err
	}
	if served {
		if rep == nil {
			return fmt.Errorf("client c%d %v: an element was available (model: %s) but the command blocked (parked at %s)", b.idx, argv, exp, p)
		}
		if rep.err != nil {
			return fmt.Errorf("client c%d %v: %v", b.idx, argv, rep.err)
		}
		if err := exp.Match(rep.v); err != nil {
			return fmt.Errorf("client c%d %v: %v", b.idx, argv, err)
		}
		pk, pn := pushesOf(argv, true)
		return s.drainWakes(fmt.Sprintf("c%d %v", b.idx, argv), pk, pn)
	}
	if rep != nil {
		return fmt.Errorf("client c%d %v completed at once with %s although nothing was available", b.idx, argv, rep.v)
	}
	if p != "before-register" {
		return fmt.Errorf("client c%d parked at %s, expected before-register", b.idx, p)
	}
	return nil
}

// atomic runs a non-blocking command of another actor and accounts for the wake-ups it causes.
func (s *sched) atomic(conn *kit.Conn, se *model.Session, argv []string) error {
	n := nowMs()
	if s.srv.WouldBeAny(s.sess, se, argv, model.Time{Lo: n, Hi: n}) {
		s.st.Class("dont-care-skipped")
		return nil
	}
	t0 := nowMs()
	got, err := conn.Do(argv...)
	t1 := nowMs()
	if err != nil {
		return fmt.Errorf("%v: %v", argv, err)
	}
	exp := s.srv.Exec(s.sess, se, argv, model.Time{Lo: t0, Hi: t1})
	s.logf("actor %v -> %s", argv, got)
	if err := exp.Match(got); err != nil {
		return fmt.Errorf("%v: %v", argv, err)
	}
	served := !(exp.Kind == model.EVal && exp.V.K == kit.KNil) && !exp.IsErr() && !(exp.Kind == model.EVal && exp.V.K == kit.KInt && exp.V.I == 0)
	pk, pn := pushesOf(argv, served)
	if exp.IsErr() {
		pk, pn = nil, nil
	}
	return s.drainWakes(fmt.Sprintf("%v", argv), pk, pn)
}

// atomicTx runs one push as MULTI / push / EXEC: the wake-ups it owes are due when EXEC has replied.
func (s *sched) atomicTx(conn *kit.Conn, se *model.Session, argv []string) error {
	n := nowMs()
	if s.srv.WouldBeAny(s.sess, se, argv, model.Time{Lo: n, Hi: n}) {
		s.st.Class("dont-care-skipped")
		return nil
	}
	var exp model.Exp
	var got kit.Value
	for _, a := range [][]string{{"MULTI"}, argv, {"EXEC"}} {
		t0 := nowMs()
		v, err := conn.Do(a...)
		t1 := nowMs()
		if err != nil {
			return fmt.Errorf("%v: %v", a, err)
		}
		exp = s.srv.Exec(s.sess, se, a, model.Time{Lo: t0, Hi: t1})
		if err := exp.Match(v); err != nil {
			return fmt.Errorf("%v (inside MULTI/EXEC): %v", a, err)
		}
		got = v
	}
	s.logf("actor MULTI %v EXEC -> %s", argv, got)
	served := got.K == kit.KArr && len(got.A) == 1 && !got.A[0].IsErr() && got.A[0].K != kit.KNil && !(got.A[0].K == kit.KInt && got.A[0].I == 0)
	pk, pn := pushesOf(argv, served)
	if !served {
		pk, pn = nil, nil
	}
	return s.drainWakes(fmt.Sprintf("MULTI %v EXEC", argv), pk, pn)
}

// willLookAgain: the client is about to run its operation again without needing a further wake-up.
func (b *blocker) willLookAgain() bool {
	if b.token {
		return true
	}
	if b.state == "parked" {
		switch b.point {
		case "before-register", "after-register", "woke-ready", "retry-failed":
			return true
		}
	}
	return false
}

// invariant at every quiescent point: a list that a client waits on is non-empty only if some waiter
// of that list is about to look at it again (was woken, or has not finished registering). Otherwise
// every waiter sleeps (or is about to go to sleep) without a wake-up pending: a lost wake-up.
func (s *sched) checkNoLostWakeup() error {
	for _, b := range s.blockers {
		if b.state == "idle" || b.willLookAgain() {
			continue
		}
		for _, k := range b.keys {
			o := s.srv.DBs[0].Keys[k]
			if o == nil || o.T != model.TList || len(o.List) == 0 {
				continue
			}
			covered := false
			for _, x := range s.blockers {
				if x.state == "idle" || !x.willLookAgain() {
					continue
				}
				for _, xk := range x.keys {
					if xk == k {
						covered = true
					}
				}
			}
			if !covered {
				return fmt.Errorf("lost wake-up: client c%d is blocked in %v with no wake-up pending while list %q holds %v and nobody else is about to consume it", b.idx, b.argv, k, o.List)
			}
		}
	}
	return nil
}

func (s *sched) parked() []*blocker {
	var l []*blocker
	for _, b := range s.blockers {
		if b.state == "parked" {
			l = append(l, b)
		}
	}
	return l
}

// finish releases everything, serves every still-blocked client and checks that all complete.
func (s *sched) finish(pusher *kit.Conn, pse *model.Session) error {
	for round := 0; round < 200; round++ {
		progressed := false
		for _, b := range s.parked() {
			if err := s.resume(b); err != nil {
				return err
			}
			progressed = true
		}
		if err := s.checkNoLostWakeup(); err != nil {
			return err
		}
		if progressed {
			continue
		}
		// everybody idle or in select
		var waiting *blocker
		for _, b := range s.blockers {
			if b.state == "select" {
				waiting = b
				break
			}
		}
		if waiting == nil {
			return nil
		}
		// one element for the longest-blocked client of that key
		if err := s.atomic(pusher, pse, []string{"RPUSH", waiting.keys[0], fmt.Sprintf("fin%d", round)}); err != nil {
			return err
		}
	}
	return fmt.Errorf("clients still blocked after serving every one of them")
}
