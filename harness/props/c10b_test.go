package props

import (
	"fmt"
	"strconv"
	"sync"
	"testing"

	"pgregory.net/rapid"

	"verifharness/kit"
)

// C10 part B — optimistic locking under contention: WATCH / read / MULTI / write / EXEC by many connections.
//
// Every connection repeats: WATCH k; read k; MULTI; [optional commands that make EXEC take the slow path];
// write k := old + 1; EXEC. An EXEC that runs means nobody modified k since the WATCH, so the final value of k
// equals the number of EXECs that ran. A watch that is checked at one moment and acted on at another loses
// increments. (Also registered for C09: a transaction that runs is one unit with its watch check.)

type C10BCase struct {
	Conns   int `json:"conns"`
	Rounds  int `json:"rounds"`
	Kind    int `json:"kind"`    // 0 string counter (GET/SET) 1 list length (LLEN/RPUSH) 2 hash field (HGET/HSET) 3 two keys moved together
	Ballast int `json:"ballast"` // 0 nothing 1 SELECT <own db> queued first 2 SELECT to another db and back 3 a few PINGs queued first
	DB      int `json:"db"`
}

func c10BGen(t *rapid.T) C10BCase {
	return C10BCase{Conns: rapid.IntRange(2, 16).Draw(t, "conns"), Rounds: rapid.IntRange(20, 150).Draw(t, "rounds"), Kind: rapid.IntRange(0, 3).Draw(t, "kind"),
		Ballast: rapid.IntRange(0, 3).Draw(t, "ballast"), DB: pick(t, "db", 0, 0, 2)}
}

func c10BRun(c C10BCase, st *kit.Stats) error {
	stalls := kit.Stalls.Load()
	emu := kit.StartEmu("")
	defer emu.Stop()
	db := strconv.Itoa(c.DB)
	admin := emu.Dial()
	admin.Do("SELECT", db)
	switch c.Kind {
	case 0:
		admin.Do("SET", "ctr", "0")
	case 2:
		admin.Do("HSET", "h", "ctr", "0")
	case 3:
		admin.Do("MSET", "a", "0", "b", "0")
	}
	var wg sync.WaitGroup
	ran := make([]int, c.Conns)
	errs := make(chan error, c.Conns)
	for i := 0; i < c.Conns; i++ {
		conn := emu.Dial()
		wg.Add(1)
		go func(i int) {
			defer wg.Done()
			conn.Do("SELECT", db)
			for r := 0; r < c.Rounds; r++ {
				var write [][]string
				switch c.Kind {
				case 0:
					conn.Do("WATCH", "ctr")
					v, err := conn.Do("GET", "ctr")
					if err != nil {
						return
					}
					n, _ := strconv.Atoi(v.S)
					write = [][]string{{"SET", "ctr", strconv.Itoa(n + 1)}}
				case 1:
					conn.Do("WATCH", "l")
					v, err := conn.Do("LLEN", "l")
					if err != nil {
						return
					}
					write = [][]string{{"RPUSH", "l", fmt.Sprintf("%d", v.I)}}
				case 2:
					conn.Do("WATCH", "h")
					v, err := conn.Do("HGET", "h", "ctr")
					if err != nil {
						return
					}
					n, _ := strconv.Atoi(v.S)
					write = [][]string{{"HSET", "h", "ctr", strconv.Itoa(n + 1)}}
				default:
					conn.Do("WATCH", "a", "b")
					v, err := conn.Do("MGET", "a", "b")
					if err != nil || len(v.A) != 2 {
						return
					}
					if v.A[0].S != v.A[1].S {
						errs <- fmt.Errorf("MGET a b saw %q and %q although both keys are only ever written together inside a transaction", v.A[0].S, v.A[1].S)
						return
					}
					n, _ := strconv.Atoi(v.A[0].S)
					write = [][]string{{"SET", "a", strconv.Itoa(n + 1)}, {"SET", "b", strconv.Itoa(n + 1)}}
				}
				conn.Do("MULTI")
				switch c.Ballast {
				case 1:
					conn.Do("SELECT", db)
				case 2:
					conn.Do("SELECT", strconv.Itoa((c.DB+5)%16))
					conn.Do("SELECT", db)
				case 3:
					conn.Do("PING")
					conn.Do("PING")
				}
				for _, w := range write {
					conn.Do(w...)
				}
				v, err := conn.Do("EXEC")
				if err != nil {
					return
				}
				if v.K == kit.KArr {
					ran[i]++
				} else if v.K != kit.KNil {
					errs <- fmt.Errorf("EXEC replied %s", v)
					return
				}
			}
		}(i)
	}
	wg.Wait()
	select {
	case err := <-errs:
		return err
	default:
	}
	if err := kit.StallError(stalls); err != nil {
		return err
	}
	total := 0
	for _, n := range ran {
		total += n
	}
	var got int
	switch c.Kind {
	case 0:
		v, _ := admin.Do("GET", "ctr")
		got, _ = strconv.Atoi(v.S)
	case 1:
		v, _ := admin.Do("LLEN", "l")
		got = int(v.I)
	case 2:
		v, _ := admin.Do("HGET", "h", "ctr")
		got, _ = strconv.Atoi(v.S)
	default:
		v, _ := admin.Do("GET", "a")
		got, _ = strconv.Atoi(v.S)
	}
	if got != total {
		return fmt.Errorf("%d connections ran WATCH / read / MULTI / write old+1 / EXEC %d times each (kind %d, ballast %d): %d EXECs ran, but the value advanced by %d: an EXEC ran although the watched key had been modified after its WATCH", c.Conns, c.Rounds, c.Kind, c.Ballast, total, got)
	}
	st.ClassN("transactions-that-ran", total)
	st.ClassN("transactions-aborted", c.Conns*c.Rounds-total)
	st.Class(fmt.Sprintf("ballast:%d", c.Ballast))
	if total < c.Conns*c.Rounds {
		st.NonTrivial(fmt.Sprintf("%+v", c), c)
	}
	return nil
}

func TestC10B(t *testing.T) {
	kit.Check(t, kit.Prop[C10BCase]{ID: "C10B", Gen: c10BGen, Run: c10BRun})
}
