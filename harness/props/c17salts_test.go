package props

import (
	"encoding/binary"
	"fmt"
	"sync"
)

// The emulator's dictionary keeps one item per bucket and doubles its table until two colliding names
// separate; its hash is SipHash-2-4 with a zero key, so the table size is a deterministic function of
// the names. Two names that agree in many low hash bits make the table huge (2^24 buckets = 128 MB and
// more), which is a resource matter outside C17. The salts for C17's name universe are therefore
// chosen so that no two names of a case agree in more than 20 low bits. The hash below mirrors the
// emulator's (sipHash.go); if the emulator's hash changes, the salts are merely no longer special.

func c17Hash(s string) uint64 {
	data := []byte(s)
	length := len(data)
	v0, v1, v2, v3 := uint64(0x736f6d6570736575), uint64(0x646f72616e646f6d), uint64(0x6c7967656e657261), uint64(0x7465646279746573)
	round := func() {
		v0 += v1
		v1 = v1<<13 | v1>>(64-13)
		v1 ^= v0
		v0 = v0<<32 | v0>>(64-32)
		v2 += v3
		v3 = v3<<16 | v3>>(64-16)
		v3 ^= v2
		v0 += v3
		v3 = v3<<21 | v3>>(64-21)
		v3 ^= v0
		v2 += v1
		v1 = v1<<17 | v1>>(64-17)
		v1 ^= v2
		v2 = v2<<32 | v2>>(64-32)
	}
	b := uint64(length) << 56
	end := length - length%8
	index := 0
	for ; index < end; index += 8 {
		m := binary.LittleEndian.Uint64(data[index:])
		v3 ^= m
		round()
		round()
		v0 ^= m
	}
	n := uint64(0)
	for ; index < length; index++ {
		n <<= 8
		n |= uint64(data[index])
	}
	b |= n
	v3 ^= b
	round()
	round()
	v0 ^= b
	v2 ^= 0xff
	round()
	round()
	round()
	round()
	return v0 ^ v1 ^ v2 ^ v3
}

var (
	c17SaltOnce sync.Once
	c17SaltList []int
)

// c17GoodSalts returns 64 salts for which no two names among s0..s199, e0..e3999, t0..t7 (with that
// salt) agree in their 21 low hash bits.
func c17GoodSalts() []int {
	c17SaltOnce.Do(func() {
		for salt := 1; salt < 200000 && len(c17SaltList) < 64; salt++ {
			seen := make(map[uint64]struct{}, 4300)
			ok := true
			add := func(name string) {
				h := c17Hash(name) & (1<<21 - 1)
				if _, dup := seen[h]; dup {
					ok = false
				}
				seen[h] = struct{}{}
			}
			for i := 0; i < 200 && ok; i++ {
				add(fmt.Sprintf("s%d.%d", i, salt))
			}
			for i := 0; i < 4000 && ok; i++ {
				add(fmt.Sprintf("e%d.%d", i, salt))
			}
			for i := 0; i < 8 && ok; i++ {
				add(fmt.Sprintf("t%d.%d", i, salt))
			}
			if ok {
				c17SaltList = append(c17SaltList, salt)
			}
		}
		if len(c17SaltList) == 0 {
			c17SaltList = []int{1}
		}
	})
	return c17SaltList
}
