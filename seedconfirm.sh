#!/bin/bash
# usage: seedconfirm.sh <dir with patch.diff + zz_seed_*_test.go>   - confirms a seeded change in a scratch worktree
export GOFLAGS=-mod=mod GOPROXY=off GOSUMDB=off GOTOOLCHAIN=local
d="$1"; wt=/tmp/seedconf; race=""; [ -n "${SEED_RACE:-}" ] && race="-race"
cd $wt || exit 9
git checkout -q --detach "$(git -C /repo rev-parse HEAD)" && git checkout -q -- . && git clean -fdq
demo=$(ls $d/zz_seed_*_test.go | head -1); tname=$(grep -o 'func TestSeed[A-Za-z0-9_]*' $demo | head -1 | cut -c6-)
cp $demo .
echo "== demo without change (must pass)"; go test $race -vet=off -count=1 -timeout 3m -run "^${tname}\$" . 2>&1 | grep -E '^(ok|FAIL|--- FAIL|panic)' | head -3
git apply $d/patch.diff || { echo "PATCH DOES NOT APPLY"; exit 9; }
go build ./... && go build -tags verif ./... || { echo "DOES NOT COMPILE"; exit 9; }
echo "== demo with change (must fail)"; go test $race -vet=off -count=1 -timeout 3m -run "^${tname}\$" . 2>&1 | grep -E '^(ok|FAIL|--- FAIL|panic)' | head -3
echo "== pinned baseline with change (must pass)"
rx=$(python3 -c "import json;b=json.load(open('/root/.vp/BASELINE.json'));print('^('+'|'.join(sorted(n.split('::')[1] for n in b['stable_pass']))+')\$')")
go test -vet=off -count=1 -timeout 10m -run "$rx" . 2>&1 | grep -E '^(ok|FAIL|--- FAIL|panic)' | head -5
echo "== whole suite with change (TestRedisBLMove is a known failure)"
go test -vet=off -count=1 -timeout 10m -skip "TestRedisUnblock|${tname}" . 2>&1 | grep -E '^(ok|FAIL|--- FAIL|panic)' | head -5
git checkout -q -- . && git clean -fdq
