#!/bin/bash
# usage: seedrun_wt.sh <patch.diff> <PROPERTY> <scratch worktree> [tier]
# Like seedrun.sh, but applies the change to a scratch worktree of /repo and points the check at it
# (VERIF_REPO), so that several seeded changes can be evaluated in parallel. /repo and evidence/ stay untouched.
set -u
patch="$1"; pid="$2"; wt="$3"; tier="${4:-quick}"
cd "$wt" || exit 9
git checkout -q --detach "$(git -C /repo rev-parse HEAD)" && git checkout -q -- . && git clean -fdq
git apply "$patch" || { echo "patch does not apply"; exit 9; }
cd /verif
VERIF_REPO="$wt" VERIF_SEED="${VERIF_SEED:-0}" ./check "$pid" --tier "$tier"
rc=$?
git -C "$wt" checkout -q -- . ; git -C "$wt" clean -fdq
echo "seedrun: property=$pid exit=$rc"
exit $rc
