#!/bin/bash
# usage: seedrun.sh <patch.diff> <PROPERTY> [tier]   - applies a seeded change to /repo, runs the check, undoes the change
set -u
patch="$1"; pid="$2"; tier="${3:-quick}"
cd /repo || exit 9
if [ -n "$(git status --porcelain)" ]; then echo "repo not clean"; exit 9; fi
git apply "$patch" || { echo "patch does not apply"; exit 9; }
cd /verif
cp evidence/$pid.json /tmp/evidence-$pid.bak 2>/dev/null
VERIF_SEED="${VERIF_SEED:-0}" ./check "$pid" --tier "$tier"
rc=$?
# the evidence file describes runs against the unchanged tree only
mv /tmp/evidence-$pid.bak evidence/$pid.json 2>/dev/null
git -C /repo checkout -- .
git -C /repo clean -fdq
echo "seedrun: property=$pid exit=$rc"
exit $rc
