#!/usr/bin/env python3
"""Regenerates MANIFEST.json from props.json (claimed checks) and properties.jsonl."""
import json, os
ROOT = os.path.dirname(os.path.abspath(__file__))
props = json.load(open(os.path.join(ROOT, "props.json")))
ids = [json.loads(l)["id"] for l in open(os.path.join(ROOT, "properties.jsonl"))]
checks = []
for pid in ids:
    if pid not in props:
        continue
    c = props[pid]
    checks.append({
        "property_id": pid,
        "quick_cmd": "./check %s --tier quick" % pid,
        "thorough_cmd": "./check %s --tier thorough" % pid,
        "evidence_file": "evidence/%s.json" % pid,
        "replay_cmd_template": "./check %s --replay {path}" % pid,
        "engine": "harness",
        "level_claimed": {"category": c.get("level", "exploration"), "text": c.get("level_text", ""), "design_ref": c.get("design_ref", "DESIGN.md section 4, " + pid)},
        "level_note": c.get("level_note", "; ".join(c.get("assumptions", []))),
        "technique": c.get("technique", "property-based testing (rapid): generated command sequences vs reference model"),
    })
na = json.load(open(os.path.join(ROOT, "not_applicable.json"))) if os.path.exists(os.path.join(ROOT, "not_applicable.json")) else {}
manifest = {
    "version": 1,
    "setup_cmd": "cd harness && export GOFLAGS=-mod=mod GOPROXY=off GOSUMDB=off GOTOOLCHAIN=local && go test -c -vet=off -tags verif -o /dev/null ./props && go test -c -vet=off -race -tags verif -o /dev/null ./props && go build -tags verif -o /dev/null ./cmd/emuhost && go test -c -vet=off -tags verif -o /dev/null ./fuzz",
    "hooks": {
        "guard": "verif",
        "enable": "go build tag: the driver builds the harness (which imports /repo through a replace directive) with -tags verif",
        "baseline_off_cmd": "cd /repo && go test -json -vet=off -count=1 -timeout 20m -run '^(TestAvlDeleteLeft|TestAvlDeletePromoteLeft|TestAvlDeletePromoteLeftFull|TestAvlDeletePromoteRight|TestAvlDeleteReplace|TestAvlDeleteReplace2|TestAvlDeleteRight|TestAvlDeleteRoot|TestAvlDeleteRootWithLeft|TestAvlDeleteRootWithRight|TestAvlInsertDelete22|TestAvlInsertDelete5|TestAvlInsertDelete6|TestAvlInsertDeleteRandom|TestAvlInsertLL|TestAvlInsertLR|TestAvlInsertRL|TestAvlInsertRR|TestAvlMultiLevel|TestAvlMultiLevel2|TestAvlMultiLevel3|TestAvlMultiLevel4|TestAvlMultiLevel5|TestBitCountMissing|TestBitCountOneByteOneBit|TestBitCountOneByteZeroBit|TestBitCountTwoBytesThreeBits|TestBitOp|TestBitPos|TestBitfieldGet|TestBitfieldIncrby|TestBitfieldIncrbyNeighbors|TestBitfieldRo|TestBitfieldSetNeighbors|TestBitfieldSetResp2|TestBitfieldSetResp3|TestBundledCommands|TestGetBit|TestLongestMin|TestLongestSeqDocs|TestLongestSeqEmpty|TestLongestSeqExact|TestLongestSeqMiddleA|TestLongestSeqMiddleAt2|TestLongestSeqPrefix|TestLongestSeqSingleX|TestLongestSeqSplit|TestLongestSeqSuffix|TestRedisClientId|TestRedisClientInfo|TestRedisClientKillAddr|TestRedisClientKillId|TestRedisClientKillLAddr|TestRedisClientKillOldSyntax|TestRedisClientKillRepeated|TestRedisClientKillSkipMe|TestRedisClientKillSyntax|TestRedisClientKillTypeMaster|TestRedisClientKillTypeNormal|TestRedisClientKillTypeSlaveReplicaPubsub|TestRedisClientKillUser|TestRedisClientList|TestRedisClientName|TestRedisClientNoEvict|TestRedisClientSelect|TestRedisEcho|TestRedisPing|TestSetBit)$' .",
        "source_commits": json.load(open(os.path.join(ROOT, "hook_commits.json"))) if os.path.exists(os.path.join(ROOT, "hook_commits.json")) else [],
        "add_only": True,
    },
    "engines": [{"name": "harness", "path": "harness", "serves_properties": [c["property_id"] for c in checks],
                 "kind_free_text": "Go module (pgregory.net/rapid v1.3.0 + native go fuzzing) driving a real emulator over TCP; python driver ./check"}],
    "checks": checks,
    "not_applicable": [{"property_id": pid, "reason": na.get(pid, "check not built yet in this session (work in progress)")} for pid in ids if pid not in props],
    "notes": "See DESIGN.md. known_findings.json lists genuine defects recorded (open) or repaired (fixed).",
}
json.dump(manifest, open(os.path.join(ROOT, "MANIFEST.json"), "w"), indent=1)
print("claimed:", [c["property_id"] for c in checks])
