#!/usr/bin/env python3
"""Re-run seeded changes against the current checks, in parallel, each in its own scratch worktree.
usage: seedsweep.py [--corpus] [--jobs N] [seed ids ...]   (default: every directory under seeded/)
Generators only by default (the saved-input corpus is switched off), so that a regression of a generator
is not masked by the saved input of the very seed it once caught. Writes seeded/<id>/check_quick.log."""
import os, subprocess, sys, glob, queue, threading
ROOT = os.path.dirname(os.path.abspath(__file__))
args = sys.argv[1:]
corpus = "--corpus" in args
jobs = 5
if "--jobs" in args:
    jobs = int(args[args.index("--jobs") + 1]); del args[args.index("--jobs"):args.index("--jobs") + 2]
ids = [a for a in args if not a.startswith("--")] or sorted(os.path.basename(os.path.dirname(p)) for p in glob.glob(ROOT + "/seeded/*/patch.diff"))
wts = queue.Queue()
for i in range(1, jobs + 1):
    wts.put("/tmp/seed/w%02d" % i)
todo = queue.Queue()
for sid in ids:
    todo.put(sid)
lock = threading.Lock()
results = {}
def worker():
    while True:
        try:
            sid = todo.get_nowait()
        except queue.Empty:
            return
        wt = wts.get()
        pid = sid.split("-")[0]
        env = dict(os.environ)
        if not corpus:
            env["VERIF_NO_CORPUS"] = "1"
        p = subprocess.run([ROOT + "/seedrun_wt.sh", "%s/seeded/%s/patch.diff" % (ROOT, sid), pid, wt], env=env, capture_output=True, text=True)
        out = p.stdout + p.stderr
        open("%s/seeded/%s/check_quick.log" % (ROOT, sid), "w").write(out)
        detail = next((l for l in out.splitlines() if l.startswith("violation detail")), "")
        with lock:
            results[sid] = p.returncode
            print("%s exit=%d %s" % (sid, p.returncode, detail[:150]), flush=True)
        wts.put(wt)
ts = [threading.Thread(target=worker) for _ in range(jobs)]
[t.start() for t in ts]; [t.join() for t in ts]
missed = sorted(s for s, rc in results.items() if rc != 1)
print("caught %d of %d; not caught: %s" % (len(results) - len(missed), len(results), missed))
