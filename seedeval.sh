#!/bin/bash
# usage: seedeval.sh <agent out dir>/<PID> <PID> [seedid]
d="$1"; pid="$2"; sid="${3:-$pid-a}"
dst=/verif/seeded/$sid
mkdir -p $dst
cp $d/patch.diff $d/zz_seed_*_test.go $dst/ 2>/dev/null
cp $d/notes.md $dst/notes.md 2>/dev/null
/verif/seedconfirm.sh $d > $dst/confirm.log 2>&1
/verif/seedrun.sh $d/patch.diff $pid > $dst/check_quick.log 2>&1
rc=$?
echo "$sid quick exit=$rc"
grep -E 'violation detail|VIOLATION|INCONCLUSIVE' $dst/check_quick.log | head -3 | cut -c1-300
